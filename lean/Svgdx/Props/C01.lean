/-
  C01 — Totality: every input gives a result or an error, never a crash or a hang.

  What a theorem can carry here is termination and freedom from fuel artefacts of the modelled loops and
  recursions, plus a regenerated inventory of the places where the real code could panic or recurse:
   * the path-data scanner consumes input on every instruction, so it stops (`path_scanner_total`);
   * the expression evaluator's descent, variable lookup and string scanners never exhaust the fuel their
     entry points supply, for ARBITRARY token strings (`expression_*`): the model has no hidden divergence,
     and the nesting the descent reaches is bounded by a scan of the tokens (`nestingDepth`), which is what
     the code's guard refuses past 100 levels (`expression_scan_bounds_recursion`, `guard_is_a_depth_budget`);
   * the bearing rewriting of path data (`B` / `b` commands) consumes input on every instruction
     (`bearing_scanner_total`);
   * the retry loop needs at most n+1 passes and idle passes are bounded (`retry_*`), loops stop at the
     limit and depth is bounded (C17);
   * **the control skeleton as a whole terminates** (`control_skeleton_terminates`, Proofs/CtlTerm.lean):
     for every evaluator, state and document there is a fuel from which on the result of
     `process_events` / `transform` is constant and is not the fuel artefact - by induction on the
     distance to the depth limit (every nested call chain, `<reuse>` of arbitrary templates included,
     passes `generate_events`' depth check), within a level by the loop limit, the list of a `<for>`,
     and the measure pending + (limit + 1 - idle passes) of the retry loop. Hypothesis: `<config>`
     elements carry no `id` (are not reuse templates) and set limits by literals bounded by some M.
     WITHOUT it the statement is false, in the model and in the code: a `<config id=c loop-limit="$n">`
     template instantiated by `<reuse>` inside `<loop while=1 loop-var=n>` raises the limit on every pass
     and never ends (`config_template_defeats_the_limits`; observation recorded in DESIGN.md 12.3);
   * `panic_sites_reviewed` / `recursion_reviewed`: the tables of unwrap / expect / panic! / index sites and
     of syntactically recursive functions, regenerated from /repo/src on every run, equal the lists
     reviewed below. A new site makes the theorem fail and has to be looked at.
  Memory safety, the allocator, the OS, quick-xml, axum and the Rust runtime are not modelled; panics,
  aborts and hangs of the real code are searched for by the isolated fuzz streams of the check.
-/
import Svgdx.Proofs.PathScan
import Svgdx.Proofs.ExprDepth
import Svgdx.Proofs.Bearing
import Svgdx.Proofs.ExprFuel
import Svgdx.Proofs.Sched
import Svgdx.Proofs.CtlTerm
import Svgdx.Props.C10
import Svgdx.Gen.Audit

namespace Svgdx.Props.C01
open Svgdx


/-! ### the control skeleton -/

/-- **`process_events` terminates**: for every evaluator, every state whose limits are at most `M` and
    whose stored templates are well-behaved (`Good`), and every document whose `<config>` elements have no
    `id` and set limits by literals of at most `M` (`nodesOk`), some fuel suffices and every larger fuel
    gives the same result: the model has no divergence to hide behind its fuel argument -/
theorem control_skeleton_terminates {ρ : Type} (ev : Ctl.Evalr ρ) (M : Nat) (st : Ctl.St ρ) (ks : Ctl.Nodes)
    (hst : Ctl.Good M st) (hks : Ctl.nodesOk M ks = true) :
    ∃ F, (Ctl.processNodes ev F st ks).2 ≠ .error .fuel ∧
      ∀ f, F ≤ f → Ctl.processNodes ev f st ks = Ctl.processNodes ev F st ks :=
  Ctl.processNodes_stable ev M st ks hst hks

/-- the same for a whole transform (`Transformer::transform` up to post-processing) -/
theorem transform_terminates {ρ : Type} (ev : Ctl.Evalr ρ) (M : Nat) (st : Ctl.St ρ) (ks : Ctl.Nodes)
    (hst : Ctl.Good M st) (hks : Ctl.nodesOk M ks = true) :
    ∃ F, (Ctl.transformDoc ev F st ks).2.2 ≠ .error .fuel ∧
      ∀ f, F ≤ f → Ctl.transformDoc ev f st ks = Ctl.transformDoc ev F st ks :=
  Ctl.transformDoc_stable ev M st ks hst hks

/-- documents without any `<config>` element: no hypothesis on limits at all (`_partial`: the extra
    hypothesis is the absence of `config`, in the document and in the templates already stored) -/
theorem control_skeleton_terminates_partial {ρ : Type} (ev : Ctl.Evalr ρ) (st : Ctl.St ρ) (ks : Ctl.Nodes)
    (hks : Ctl.nodesNoCfg ks = true)
    (hst : ∀ t ∈ st.originals, t.2.1.name ≠ cs!"config" ∧ Ctl.kidsNoCfg t.2.2 = true) :
    ∃ F, (Ctl.processNodes ev F st ks).2 ≠ .error .fuel ∧
      ∀ f, F ≤ f → Ctl.processNodes ev f st ks = Ctl.processNodes ev F st ks :=
  Ctl.processNodes_terminates_partial ev st ks hks hst

/-- **one loop activation runs its body at most limit + 1 times**: from iteration `M` on, a pass is
    followed by the loop-limit error, whatever the tests say. (`GoodD` / `nodesOkD`: since `apply_defaults`
    is applied to `<config/>` elements too, `M` has to bound the limit literals of the stored defaults and of
    the content of `<defaults>` elements as well - with `Good` / `nodesOk` alone the statement is false.) -/
theorem loop_body_runs_bounded {ρ : Type} (ev : Ctl.Evalr ρ) (M f : Nat) (st : Ctl.St ρ) (ks : Ctl.Nodes)
    c w u n v s i acc bb (hg : Ctl.GoodD M st) (hk : Ctl.nodesOkD M ks = true) (hi : M ≤ i) :
    Ctl.loopIter ev (f + 1) st ks c w u n v s i acc bb =
      Ctl.seq (Ctl.preTest ev st c w i) fun st go =>
        if !go then (st, .ok (acc, bb))
        else Ctl.seq (Ctl.processNodes ev f (Ctl.bindLoopVar st n v) ks) fun st _ =>
          (st, .error (.loopLimit (i + 1) st.cfg.loopLimit)) :=
  Ctl.loopIter_last_pass ev M f st ks c w u n v s i acc bb hg hk hi

/-- **one activation of the retry loop makes at most pending + limit + 1 passes**: each pass ends in an
    error or strictly decreases pending + (M + 1 - idle passes) -/
theorem retry_passes_decrease_measure {ρ : Type} (ev : Ctl.Evalr ρ) (M f : Nat) (st : Ctl.St ρ) (t : Ctl.Tag)
    (ts : List Ctl.Tag) outs bb (hg : Ctl.GoodD M st) (hts : ∀ x ∈ t :: ts, Ctl.nodeOkD M x.node = true) :
    (∃ er, (Ctl.retry ev (f + 1) st (t :: ts) outs bb).2 = .error er) ∨
    ∃ st' ts' outs' bb', Ctl.retry ev (f + 1) st (t :: ts) outs bb = Ctl.retry ev f st' ts' outs' bb' ∧
      Ctl.retryMeasure M st' ts' < Ctl.retryMeasure M st (t :: ts) ∧ Ctl.GoodD M st' ∧
      ∀ x ∈ ts', Ctl.nodeOkD M x.node = true :=
  Ctl.retry_measure_decreases ev M f st t ts outs bb hg hts

/-- the hypotheses are satisfiable: a document with a variable, a `<config loop-limit="50"/>`, a forward
    reference, a group, a count loop, a while loop and a reuse meets them, and runs to completion -/
theorem control_skeleton_terminates_instance :
    Ctl.Good 1000 Ctl.TermExample.st0 ∧ Ctl.nodesOk 1000 Ctl.TermExample.doc = true ∧
    ∃ f, (Ctl.processNodes Ctl.simpleEvalr f Ctl.TermExample.st0 Ctl.TermExample.doc).2 ≠ .error .fuel :=
  ⟨Ctl.TermExample.st0_good, Ctl.TermExample.doc_ok, Ctl.TermExample.doc_terminates⟩

/-- … and so are the hypotheses of the two quantitative statements (same document, same `M`) -/
theorem quantitative_hypotheses_instance :
    Ctl.GoodD 1000 Ctl.TermExample.st0 ∧ Ctl.nodesOkD 1000 Ctl.TermExample.doc = true :=
  ⟨Ctl.TermExample.st0_goodD, Ctl.TermExample.doc_okD⟩

/-- why the hypothesis on `<config>` is needed: a config TEMPLATE whose limit is an expression, reused in
    a `while` loop, is outside `nodesOk` for every M, and the model runs out of any fuel tried while the
    limit climbs with it (the real binary does not return either) -/
theorem config_template_defeats_the_limits (M : Nat) : Ctl.nodesOk M Ctl.NonTermination.doc = false :=
  Ctl.NonTermination.doc_not_ok M

/-! ### the path-data scanner -/

/-- **`path_bbox` ends on every `d` string** - with a box, without one, or with a parse error; the loop of
    `PathParser::evaluate` cannot spin (before the repair, `M 0 0 Z 5 5` did) -/
theorem path_scanner_total (d : Str) : Path.pathBBox d ≠ .outOfFuel := Path.pathBBox_total d

/-- each instruction consumes input (and a closepath is never the remembered command) -/
theorem path_instruction_consumes {st st' : Path.PState} (hg : Path.Good st) (h : Path.step st = some st') :
    st'.rest.length < st.rest.length ∧ Path.Good st' := Path.step_lt hg h

/-! ### expressions: arbitrary input, no fuel artefact -/

open Expr in
/-- the recursive descent ends on every token list: fuel linear in the number of tokens always suffices -/
theorem expression_descent_total {α σ : Type} (o : Ops α σ) (lk : Lookup α σ) (elref : Str → Res α)
    (hlk : ∀ v ck st, lk v ck st ≠ .error .outOfFuel) (hel : ∀ v, elref v ≠ .error .outOfFuel)
    (ck : List Str) (ts : List (Token α)) (st : σ) :
    evaluate o lk elref ck ts st ≠ .error .outOfFuel :=
  evaluate_ne_outOfFuel o lk elref hlk hel ck ts st

open Expr in
/-- nested variable lookups end: the cycle check bounds their depth by the number of variables -/
theorem expression_lookup_total {α σ : Type} (o : Ops α σ) (env : Env) (elref : Str → Res α)
    (hel : ∀ v, elref v ≠ .error .outOfFuel) (base : Nat) (v : Str) (ck : List Str) (st : σ) :
    lookup o env elref base v ck st ≠ .error .outOfFuel :=
  lookup_ne_outOfFuel o env elref hel base v ck st

open Expr in
/-- the nesting guard: an expression whose tokens nest deeper than `MAX_EXPR_DEPTH` (together with the
    expressions whose variables led to it) is refused before the recursive parser is entered — this is
    what stands where a stack overflow used to be -/
theorem expression_nesting_guard {α σ : Type} (o : Ops α σ) (lkB : Nat → Lookup α σ) (elref : Str → Res α)
    (base : Nat) (ck : List Str) (ts : List (Token α)) (st : σ)
    (h : maxExprDepth < base + nestingDepth ts) :
    evaluateAt o lkB elref base ck ts st = .error .depthLimit := by
  simp only [evaluateAt, h, if_true]

open Expr in
/-- **the token scan bounds the nesting the descent really reaches.** `evaluateD` is the descent with a
    depth budget that is spent at exactly the three places where `primary` re-enters itself (an open
    parenthesis, a unary minus, a function call) and answers `DepthLimitExceeded` when it runs out; with
    a budget of `nestingDepth ts` it never does - it IS `evaluate`, for every token list, well formed or
    not. So an expression the guard lets through nests at most 100 re-entries deep. -/
theorem expression_scan_bounds_recursion {α σ : Type} (o : Ops α σ) (lk : Lookup α σ) (elref : Str → Res α)
    (d : Nat) (ck : List Str) (ts : List (Token α)) (st : σ) (h : nestingDepth ts ≤ d) :
    evaluateD o lk elref d ck ts st = evaluate o lk elref ck ts st :=
  evaluateD_eq_evaluate o lk elref d ck ts st h

open Expr in
/-- the guard, read as a budget: evaluating at depth `base` what the guard admits is the budgeted descent
    with what is left of the 100 levels -/
theorem guard_is_a_depth_budget {α σ : Type} (o : Ops α σ) (lkB : Nat → Lookup α σ) (elref : Str → Res α)
    (base : Nat) (ck : List Str) (ts : List (Token α)) (st : σ)
    (h : base + nestingDepth ts ≤ maxExprDepth) :
    evaluateAt o lkB elref base ck ts st
      = evaluateD o (lkB (base + nestingDepth ts + 1)) elref (maxExprDepth - base) ck ts st :=
  evaluateAt_eq_evaluateD o lkB elref base ck ts st h

open Expr in
/-- a budget can only ever turn an answer into `DepthLimitExceeded`, never into another answer -/
theorem depth_budget_only_refuses {α σ : Type} (o : Ops α σ) (lk : Lookup α σ) (elref : Str → Res α)
    (d : Nat) (ck : List Str) (ts : List (Token α)) (st : σ) :
    evaluateD o lk elref d ck ts st = evaluate o lk elref ck ts st ∨
      evaluateD o lk elref d ck ts st = .error .depthLimit :=
  evaluateD_eq_or_depthLimit o lk elref d ck ts st

/-- **the bearing rewriting of path data ends on every `d` string**, for any number operations -/
theorem bearing_scanner_total {α σ : Type} (o : Expr.Ops α σ) (d : Str) :
    Bearing.processPathBearing o d ≠ .outOfFuel := Bearing.processPathBearing_total o d

/-- … and what it writes contains no bearing command any more (given that numbers are not printed with a
    `B` or `b` in them) -/
theorem bearing_commands_removed {α σ : Type} (o : Expr.Ops α σ) (hf : ∀ x, Bearing.NoB (o.fstr x))
    (d out : Str) (h : Bearing.processPathBearing o d = .ok out) : Bearing.NoB out :=
  Bearing.processPathBearing_noB_out o hf d out h

open Expr in
/-- … and every variable on the way costs a level: the lookups made while evaluating at depth `d` are
    made at depth `d + 1`, so a chain of variables defined in terms of each other ends after at most
    `MAX_EXPR_DEPTH` links -/
theorem expression_lookup_deeper {α σ : Type} (o : Ops α σ) (lkB : Nat → Lookup α σ) (elref : Str → Res α)
    (base : Nat) (ck : List Str) (ts : List (Token α)) (st : σ)
    (h : base + nestingDepth ts ≤ maxExprDepth) :
    evaluateAt o lkB elref base ck ts st = evaluate o (lkB (base + nestingDepth ts + 1)) elref ck ts st := by
  have hn : ¬ (base + nestingDepth ts > maxExprDepth) := by omega
  simp only [evaluateAt, if_neg hn]

open Expr in
/-- every attribute value, condition and list evaluates to a value or an error -/
theorem expression_entry_points_total {α σ : Type} (o : Ops α σ) (env : Env) (elref : Str → Res α)
    (hel : ∀ v, elref v ≠ .error .outOfFuel) (value : Str) (st : σ) :
    evalAttr o env elref value st ≠ .error .outOfFuel ∧
    evalCondition o env elref value st ≠ .error .outOfFuel ∧
    evalList o env elref value st ≠ .error .outOfFuel :=
  ⟨evalAttr_ne_outOfFuel o env elref hel value st, evalCondition_ne_outOfFuel o env elref hel value st,
   evalList_ne_outOfFuel o env elref hel value st⟩

/-! ### the retry loop -/

/-- n + 1 passes always suffice for n pending elements -/
theorem retry_passes_bounded {ι ν : Type} [DecidableEq ι] (items : List (Sched.Item ι ν)) (fuel : Nat)
    (h : items.length + 1 ≤ fuel) : Sched.retry fuel [] items = Sched.run items :=
  Sched.fuel_irrelevant items fuel h

/-! ### inventories of the real code -/

/-- reviewed panic sites (file, function, kind, occurrences) -/
def reviewedPanicSites : List (Str × Str × Str × Nat) := [
  (cs!"bearing.rs", cs!"PathBearing::process_instruction", cs!"expect", 1),   -- set two lines above / guarded by at_end
  (cs!"bearing.rs", cs!"PathBearing::process_instruction", cs!"unwrap", 1),   -- set two lines above / guarded by at_end
  (cs!"cli.rs", cs!"run", cs!"expect", 1),   -- watcher creation in --watch mode only (not a transform)
  (cs!"connector.rs", cs!"Connector::from_element", cs!"expect", 6),   -- locations set by the preceding match arms; point lists of fixed length
  (cs!"connector.rs", cs!"Connector::render", cs!"index", 4),   -- locations set by the preceding match arms; point lists of fixed length
  (cs!"context.rs", cs!"TransformerContext::ensure_scope", cs!"expect", 1),   -- scope created by ensure_scope; system clock after the epoch (local style id only)
  (cs!"context.rs", cs!"TransformerContext::set_config", cs!"unwrap", 1),   -- scope created by ensure_scope; system clock after the epoch (local style id only)
  (cs!"element.rs", cs!"SvgElement::all_events", cs!"index", 1),   -- slices of the stored event range; one of surround/inside is set; splitn yields a first part
  (cs!"element.rs", cs!"SvgElement::element_events", cs!"index", 2),   -- slices of the stored event range; one of surround/inside is set; splitn yields a first part
  (cs!"element.rs", cs!"SvgElement::handle_containment", cs!"unwrap", 1),   -- slices of the stored event range; one of surround/inside is set; splitn yields a first part
  (cs!"element.rs", cs!"SvgElement::inner_events", cs!"index", 1),   -- slices of the stored event range; one of surround/inside is set; splitn yields a first part
  (cs!"element.rs", cs!"SvgElement::split_compound_attr", cs!"expect", 1),   -- slices of the stored event range; one of surround/inside is set; splitn yields a first part
  (cs!"element.rs", cs!"expand_relspec", cs!"index", 5),   -- slices of the stored event range; one of surround/inside is set; splitn yields a first part
  (cs!"events.rs", cs!"InputEvent::cdata_string", cs!"expect", 1),   -- matched Ok(..) two lines above; ranges from the event indices; UTF-8 validated in from_reader
  (cs!"events.rs", cs!"InputList::from_reader", cs!"expect", 3),   -- matched Ok(..) two lines above; ranges from the event indices; UTF-8 validated in from_reader
  (cs!"events.rs", cs!"InputList::from_reader", cs!"index", 1),   -- matched Ok(..) two lines above; ranges from the event indices; UTF-8 validated in from_reader
  (cs!"events.rs", cs!"InputList::slice", cs!"index", 1),   -- matched Ok(..) two lines above; ranges from the event indices; UTF-8 validated in from_reader
  (cs!"events.rs", cs!"OutputEvent::from", cs!"expect", 4),   -- matched Ok(..) two lines above; ranges from the event indices; UTF-8 validated in from_reader
  (cs!"events.rs", cs!"OutputList::blank_line_remover", cs!"index", 1),   -- matched Ok(..) two lines above; ranges from the event indices; UTF-8 validated in from_reader
  (cs!"events.rs", cs!"SvgElement::try_from", cs!"expect", 2),   -- matched Ok(..) two lines above; ranges from the event indices; UTF-8 validated in from_reader
  (cs!"events.rs", cs!"XmlCharGuard::write", cs!"index", 5),   -- w[0..2] on the items of buf.windows(3), each of length 3
  (cs!"events.rs", cs!"invalid_reference", cs!"index", 2),   -- rest[pos + 1..] after find('&') (ASCII, so in range and on a boundary); rest[..end] with end from find(';')
  (cs!"events.rs", cs!"tagify_events", cs!"index", 2),   -- matched Ok(..) two lines above; ranges from the event indices; UTF-8 validated in from_reader
  (cs!"expression.rs", cs!"eval_expr", cs!"index", 4),   -- slices at positions returned by find on the same string
  (cs!"expression.rs", cs!"eval_vars", cs!"index", 4),   -- slices at positions returned by find on the same string
  (cs!"expression.rs", cs!"valid_variable_name", cs!"index", 1),   -- slices at positions returned by find on the same string
  (cs!"functions.rs", cs!"eval_function", cs!"index", 14),   -- argument counts checked before indexing
  (cs!"lib.rs", cs!"transform_file", cs!"expect", 1),   -- terminal stdin only; output is assembled from strings
  (cs!"lib.rs", cs!"transform_str", cs!"expect", 1),   -- terminal stdin only; output is assembled from strings
  (cs!"path.rs", cs!"(item)", cs!"unwrap", 3),   -- guarded by at_end / at_command; command set above
  (cs!"path.rs", cs!"PathParser::process_instruction", cs!"expect", 1),   -- guarded by at_end / at_command; command set above
  (cs!"position.rs", cs!"TrblLength::from_str", cs!"index", 16),   -- length of the split checked by the surrounding match
  (cs!"reuse.rs", cs!"ReuseElement::generate_events", cs!"index", 1),   -- event range of the original element
  (cs!"server.rs", cs!"(item)", cs!"unwrap", 2),   -- static response builders
  (cs!"server.rs", cs!"start_server", cs!"unwrap", 3),   -- static response builders
  (cs!"server.rs", cs!"static_file", cs!"unwrap", 1),   -- static response builders
  (cs!"server.rs", cs!"transform", cs!"unwrap", 2),   -- static response builders
  (cs!"text.rs", cs!"get_text_value", cs!"expect", 1),   -- caller checks has_attr("text"); index within the pattern just matched
  (cs!"text.rs", cs!"text_string", cs!"index", 2),   -- caller checks has_attr("text"); index within the pattern just matched
  (cs!"transform.rs", cs!"Transformer::write_root_svg", cs!"expect", 2),   -- is_some checked in the enclosing match
  (cs!"transform_attr.rs", cs!"TransformType::from_str", cs!"index", 19),   -- argument counts checked per transform function
  (cs!"types.rs", cs!"svg_number_list", cs!"index", 11)   -- every index is guarded by `i < chars.len()` (or follows the early return); the slice ends at i <= len
]

/-- **no panic site outside the reviewed list**: the table regenerated from the source equals it -/
theorem panic_sites_reviewed : Gen.Audit.panicSites = reviewedPanicSites := rfl

/-- reviewed recursive functions: what bounds each recursion -/
def reviewedRecursiveFns : List (Str × Str) := [
  (cs!"context.rs", cs!"TransformerContext::clipped_element_bbox"),   -- cycle check on the clip paths followed (seen list)
  (cs!"events.rs", cs!"InputEvent::from"),   -- From impl delegating to another From impl (no self call at run time)
  (cs!"events.rs", cs!"SvgElement::try_from"),   -- TryFrom impl delegating to the BytesStart one
  (cs!"events.rs", cs!"XmlCharGuard::flush"),   -- Write impl delegating to the wrapped writer's method of the same name
  (cs!"events.rs", cs!"XmlCharGuard::write"),   -- Write impl delegating to the wrapped writer's method of the same name
  (cs!"expression.rs", cs!"EvalState::lookup"),   -- cycle check (checked_vars): depth <= number of variables; exponential breadth is an open finding
  (cs!"expression.rs", cs!"ExprValue::flatten"),   -- depth of the value = nesting of list literals in the expression
  (cs!"expression.rs", cs!"ExprValue::to_string_vec"),   -- same
  (cs!"expression.rs", cs!"comparison"),   -- recursive descent: depth <= nesting of the expression - UNBOUNDED STACK USE, open finding
  (cs!"expression.rs", cs!"expr"),   -- same
  (cs!"expression.rs", cs!"expr_list"),   -- same
  (cs!"expression.rs", cs!"factor"),   -- same
  (cs!"expression.rs", cs!"logical"),   -- same
  (cs!"expression.rs", cs!"primary"),   -- same
  (cs!"expression.rs", cs!"term"),   -- same
  (cs!"position.rs", cs!"BoundingBox::scalarspec"),   -- one step to the primitive scalar (modelled, terminates structurally)
  (cs!"themes.rs", cs!"ThemeBuilder::build"),   -- builder method named like the trait method it calls
  (cs!"types.rs", cs!"ClassList::contains"),   -- wrapper around the inner container
  (cs!"types.rs", cs!"ClassList::remove")   -- wrapper around the inner container
]

/-- **no recursion outside the reviewed list** (syntactic call graph; trait-object dispatch of
    `generate_events` is bounded by the depth limit, C17) -/
theorem recursion_reviewed : Gen.Audit.recursiveFns = reviewedRecursiveFns := rfl

end Svgdx.Props.C01

#print axioms Svgdx.Props.C01.path_scanner_total
#print axioms Svgdx.Props.C01.path_instruction_consumes
#print axioms Svgdx.Props.C01.expression_descent_total
#print axioms Svgdx.Props.C01.expression_lookup_total
#print axioms Svgdx.Props.C01.expression_nesting_guard
#print axioms Svgdx.Props.C01.expression_lookup_deeper
#print axioms Svgdx.Props.C01.expression_scan_bounds_recursion
#print axioms Svgdx.Props.C01.guard_is_a_depth_budget
#print axioms Svgdx.Props.C01.depth_budget_only_refuses
#print axioms Svgdx.Props.C01.bearing_scanner_total
#print axioms Svgdx.Props.C01.bearing_commands_removed
#print axioms Svgdx.Props.C01.expression_entry_points_total
#print axioms Svgdx.Props.C01.retry_passes_bounded
#print axioms Svgdx.Props.C01.panic_sites_reviewed
#print axioms Svgdx.Props.C01.recursion_reviewed
#print axioms Svgdx.Props.C01.control_skeleton_terminates
#print axioms Svgdx.Props.C01.transform_terminates
#print axioms Svgdx.Props.C01.control_skeleton_terminates_partial
#print axioms Svgdx.Props.C01.loop_body_runs_bounded
#print axioms Svgdx.Props.C01.retry_passes_decrease_measure
#print axioms Svgdx.Props.C01.control_skeleton_terminates_instance
#print axioms Svgdx.Props.C01.quantitative_hypotheses_instance
#print axioms Svgdx.Props.C01.config_template_defeats_the_limits
#print axioms Svgdx.Ctl.NonTermination.doc_fuel
