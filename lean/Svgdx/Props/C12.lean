/-
  C12 — Containment: surround encloses, inside is enclosed.

  Numeric theorems are about the GENERATED box algebra (`combine`, `intersect`, `expand_trbl_length`,
  `shrink_trbl_length`, `center`, `width`, `height`) and the hand model of `position_from_bbox` /
  `handle_containment`; the latter is tied to the code by the `resolve/containment` stream.
  `sqrt2` and `frac1Sqrt2` are the exact rational values of the f32 constants the code uses.
-/
import Svgdx.Geom.Resolve
import Svgdx.Proofs.Attrs
import Mathlib.Tactic.Ring
import Mathlib.Tactic.Linarith
import Mathlib.Tactic.Positivity
import Mathlib.Tactic.NormNum
import Mathlib.Tactic.FieldSimp
import Mathlib.Tactic.SplitIfs

namespace Svgdx.Props.C12
open Svgdx Gen

/-- `b` lies within `u` -/
def Within (b u : BoundingBox) : Prop := u.x1 ≤ b.x1 ∧ u.y1 ≤ b.y1 ∧ b.x2 ≤ u.x2 ∧ b.y2 ≤ u.y2

theorem within_refl (b : BoundingBox) : Within b b := ⟨le_refl _, le_refl _, le_refl _, le_refl _⟩

theorem within_trans {a b c : BoundingBox} (h1 : Within a b) (h2 : Within b c) : Within a c :=
  ⟨le_trans h2.1 h1.1, le_trans h2.2.1 h1.2.1, le_trans h1.2.2.1 h2.2.2.1, le_trans h1.2.2.2 h2.2.2.2⟩

theorem rq_min_le_left (a b : Rat) : Rq.min a b ≤ a := by unfold Rq.min; split <;> linarith
theorem rq_min_le_right (a b : Rat) : Rq.min a b ≤ b := by unfold Rq.min; split <;> linarith
theorem rq_le_max_left (a b : Rat) : a ≤ Rq.max a b := by unfold Rq.max; split <;> linarith
theorem rq_le_max_right (a b : Rat) : b ≤ Rq.max a b := by unfold Rq.max; split <;> linarith

/-! ### margin: one to four values in CSS order top / right / bottom / left -/

theorem trbl_css_order (a b c d : Length) :
    trblOfList [a] = some ⟨a, a, a, a⟩ ∧ trblOfList [a, b] = some ⟨a, b, a, b⟩ ∧
    trblOfList [a, b, c] = some ⟨a, b, c, b⟩ ∧ trblOfList [a, b, c, d] = some ⟨a, b, c, d⟩ ∧
    trblOfList [] = none ∧ ∀ e rest, trblOfList (a :: b :: c :: d :: e :: rest) = none := by
  simp [trblOfList]

/-! ### surround: the union of the listed boxes, grown by the margin -/

theorem combine_encloses (a b : BoundingBox) : Within a (a.combine b) ∧ Within b (a.combine b) := by
  simp only [Within, BoundingBox.combine, BoundingBox.new]
  exact ⟨⟨rq_min_le_left _ _, rq_min_le_left _ _, rq_le_max_left _ _, rq_le_max_left _ _⟩,
         ⟨rq_min_le_right _ _, rq_min_le_right _ _, rq_le_max_right _ _, rq_le_max_right _ _⟩⟩

theorem foldl_combine_encloses (bs : List BoundingBox) (acc : BoundingBox) :
    Within acc (bs.foldl BoundingBox.combine acc) ∧ ∀ b ∈ bs, Within b (bs.foldl BoundingBox.combine acc) := by
  induction bs generalizing acc with
  | nil => exact ⟨within_refl _, by simp⟩
  | cons x xs ih =>
    have h := ih (acc.combine x)
    have hc := combine_encloses acc x
    refine ⟨within_trans hc.1 h.1, ?_⟩
    intro b hb
    rcases List.mem_cons.mp hb with rfl | hb
    · exact within_trans hc.2 h.1
    · exact h.2 b hb

/-- **the union encloses every listed box**, for lists of any length -/
theorem unionAll_encloses (bs : List BoundingBox) (b : BoundingBox) (hb : b ∈ bs) :
    ∃ u, Elem.unionAll bs = some u ∧ Within b u := by
  cases bs with
  | nil => simp at hb
  | cons x xs =>
    refine ⟨_, rfl, ?_⟩
    have h := foldl_combine_encloses xs x
    rcases List.mem_cons.mp hb with rfl | hb
    · exact h.1
    · exact h.2 b hb

/-- growing by a margin: absolute values move each side outward by exactly that amount,
    in the order top / right / bottom / left -/
theorem expand_absolute (b : BoundingBox) (t r bo l : Rat) :
    b.expand_trbl_length ⟨.Absolute t, .Absolute r, .Absolute bo, .Absolute l⟩ =
      ⟨b.x1 - l, b.y1 - t, b.x2 + r, b.y2 + bo⟩ := by
  simp [BoundingBox.expand_trbl_length, Length.evaluate]

/-- percent margins are percent of the larger side (as the code has it) -/
theorem expand_ratio (b : BoundingBox) (t r bo l : Rat) :
    b.expand_trbl_length ⟨.Ratio t, .Ratio r, .Ratio bo, .Ratio l⟩ =
      (let base := Rq.max b.width b.height
       ⟨b.x1 - base * l, b.y1 - base * t, b.x2 + base * r, b.y2 + base * bo⟩) := by
  simp [BoundingBox.expand_trbl_length, Length.evaluate]

/-- a non-negative margin never shrinks: the grown box encloses the union -/
theorem expand_encloses (b : BoundingBox) (m : TrblLength) (base := Rq.max b.width b.height)
    (ht : 0 ≤ m.top.evaluate (Rq.max b.width b.height)) (hr : 0 ≤ m.right.evaluate (Rq.max b.width b.height))
    (hb : 0 ≤ m.bottom.evaluate (Rq.max b.width b.height)) (hl : 0 ≤ m.left.evaluate (Rq.max b.width b.height)) :
    Within b (b.expand_trbl_length m) := by
  simp only [Within, BoundingBox.expand_trbl_length]
  refine ⟨by linarith, by linarith, by linarith, by linarith⟩

/-- **a surrounding rect equals the grown box exactly**: `position_from_bbox` writes x, y, width, height of
    the box (as 3-decimal strings) into the element -/
theorem surround_rect_exact (e : Elem) (b : BoundingBox) (hn : e.name = cs!"rect")
    (hk : Attrs.NodupKeys e.attrs) :
    let e' := e.positionFromBBox b false
    e'.getAttr ['x'] = some (Num.fstr b.x1) ∧ e'.getAttr ['y'] = some (Num.fstr b.y1) ∧
    e'.getAttr cs!"width" = some (Num.fstr (b.x2 - b.x1)) ∧
    e'.getAttr cs!"height" = some (Num.fstr (b.y2 - b.y1)) := by
  simp only [Elem.positionFromBBox, hn, BoundingBox.locspec, BoundingBox.width, BoundingBox.height,
    BoundingBox.center, Elem.setAttr, Elem.getAttr]
  have h1 := Attrs.insert_nodup hk ['x'] (Num.fstr b.x1)
  have h2 := Attrs.insert_nodup h1 ['y'] (Num.fstr b.y1)
  have h3 := Attrs.insert_nodup h2 cs!"width" (Num.fstr (b.x2 - b.x1))
  simp only [beq_self_eq_true, Bool.true_or, if_true]
  refine ⟨?_, ?_, ?_, ?_⟩
  · rw [Attrs.get_insert_other h3 _ _ _ (by decide), Attrs.get_insert_other h2 _ _ _ (by decide),
      Attrs.get_insert_other h1 _ _ _ (by decide), Attrs.get_insert_self hk]
  · rw [Attrs.get_insert_other h3 _ _ _ (by decide), Attrs.get_insert_other h2 _ _ _ (by decide),
      Attrs.get_insert_self h1]
  · rw [Attrs.get_insert_other h3 _ _ _ (by decide), Attrs.get_insert_self h2]
  · rw [Attrs.get_insert_self h3]

/-- the f32 constant SQRT_2 falls short of √2 by a relative 3.5e-8: 2 / s² ≤ 1 + 10⁻⁷ -/
theorem sqrt2_defect : Elem.sqrt2 ^ 2 ≤ 2 ∧ 2 ≤ Elem.sqrt2 ^ 2 * (1 + 1 / 10000000) := by
  unfold Elem.sqrt2; constructor <;> norm_num

/-- **a surrounding circle circumscribes the box** up to the defect of the f32 constant: with
    `r = ½·max(w,h)·SQRT_2`, every corner of the box is within `r·√(1+10⁻⁷)` of the centre -/
theorem surround_circle_circumscribes (w h : Rat) (hw : 0 ≤ w) (hh : 0 ≤ h) :
    let r := (1 / 2 : Rat) * Rq.max w h * Elem.sqrt2
    (w / 2) ^ 2 + (h / 2) ^ 2 ≤ r ^ 2 * (1 + 1 / 10000000) := by
  intro r
  have hm1 : w ≤ Rq.max w h := rq_le_max_left w h
  have hm2 : h ≤ Rq.max w h := rq_le_max_right w h
  have hm0 : 0 ≤ Rq.max w h := le_trans hw hm1
  have hs := sqrt2_defect.2
  have e1 : (w / 2) ^ 2 + (h / 2) ^ 2 ≤ 2 * (Rq.max w h / 2) ^ 2 := by nlinarith
  have e2 : r ^ 2 * (1 + 1 / 10000000) = (Rq.max w h / 2) ^ 2 * (Elem.sqrt2 ^ 2 * (1 + 1 / 10000000)) := by
    simp only [r]; ring
  rw [e2]
  have hsq : 0 ≤ (Rq.max w h / 2) ^ 2 := by positivity
  nlinarith

/-- a surrounding ellipse (rx = ½·w·SQRT_2, ry = ½·h·SQRT_2) passes through the corners up to the same defect -/
theorem surround_ellipse_circumscribes (w h : Rat) (hw : 0 < w) (hh : 0 < h) :
    let rx := (1 / 2 : Rat) * w * Elem.sqrt2
    let ry := (1 / 2 : Rat) * h * Elem.sqrt2
    (w / 2) ^ 2 / rx ^ 2 + (h / 2) ^ 2 / ry ^ 2 ≤ 1 + 1 / 10000000 := by
  intro rx ry
  have hs : (0 : Rat) < Elem.sqrt2 := by unfold Elem.sqrt2; norm_num
  have e : (w / 2) ^ 2 / rx ^ 2 + (h / 2) ^ 2 / ry ^ 2 = 2 / Elem.sqrt2 ^ 2 := by
    simp only [rx, ry]; field_simp; ring
  rw [e]
  unfold Elem.sqrt2; norm_num

/-! ### inside: within the intersection of the inscribed areas, shrunk by the margin -/

theorem intersect_within (a b r : BoundingBox) (h : a.intersect b = some r) : Within r a ∧ Within r b := by
  have hr : r = ⟨Rq.max a.x1 b.x1, Rq.max a.y1 b.y1, Rq.min a.x2 b.x2, Rq.min a.y2 b.y2⟩ := by
    unfold BoundingBox.intersect at h
    simp only [] at h
    by_cases hc : ((decide ((BoundingBox.new (Rq.max a.x1 b.x1) (Rq.max a.y1 b.y1) (Rq.min a.x2 b.x2)
        (Rq.min a.y2 b.y2)).width ≥ (0 : Rat))) && (decide ((BoundingBox.new (Rq.max a.x1 b.x1)
        (Rq.max a.y1 b.y1) (Rq.min a.x2 b.x2) (Rq.min a.y2 b.y2)).height ≥ (0 : Rat)))) = true
    · rw [if_pos hc] at h
      cases h
      rfl
    · rw [if_neg hc] at h
      cases h
  subst hr
  simp only [Within]
  exact ⟨⟨rq_le_max_left _ _, rq_le_max_left _ _, rq_min_le_left _ _, rq_min_le_left _ _⟩,
         ⟨rq_le_max_right _ _, rq_le_max_right _ _, rq_min_le_right _ _, rq_min_le_right _ _⟩⟩

theorem foldl_intersect_within (bs : List BoundingBox) (acc : Option BoundingBox) (r : BoundingBox)
    (h : bs.foldl (fun acc o => acc.bind (·.intersect o)) acc = some r) :
    (∃ a, acc = some a ∧ Within r a) ∧ ∀ b ∈ bs, Within r b := by
  induction bs generalizing acc with
  | nil => simp only [List.foldl_nil] at h; exact ⟨⟨r, h, within_refl r⟩, by simp⟩
  | cons x xs ih =>
    simp only [List.foldl_cons] at h
    obtain ⟨⟨a, ha, hra⟩, hall⟩ := ih _ h
    cases acc with
    | none => simp at ha
    | some a0 =>
      simp only [Option.bind_some] at ha
      have hw := intersect_within a0 x a ha
      refine ⟨⟨a0, rfl, within_trans hra hw.1⟩, ?_⟩
      intro b hb
      rcases List.mem_cons.mp hb with rfl | hb
      · exact within_trans hra hw.2
      · exact hall b hb

/-- **the intersection lies within every listed area**, for lists of any length; an empty intersection
    yields no box at all -/
theorem intersectAll_within (bs : List BoundingBox) (r : BoundingBox) (h : Elem.intersectAll bs = some r) :
    ∀ b ∈ bs, Within r b := by
  cases bs with
  | nil => simp [Elem.intersectAll] at h
  | cons x xs =>
    simp only [Elem.intersectAll] at h
    obtain ⟨⟨a, ha, hra⟩, hall⟩ := foldl_intersect_within xs (some x) r h
    cases ha
    intro b hb
    rcases List.mem_cons.mp hb with rfl | hb
    · exact hra
    · exact hall b hb

theorem shrink_absolute (b : BoundingBox) (t r bo l : Rat) :
    b.shrink_trbl_length ⟨.Absolute t, .Absolute r, .Absolute bo, .Absolute l⟩ =
      ⟨b.x1 + l, b.y1 + t, b.x2 - r, b.y2 - bo⟩ := by
  simp [BoundingBox.shrink_trbl_length, Length.evaluate]

theorem shrink_within (b : BoundingBox) (m : TrblLength)
    (ht : 0 ≤ m.top.evaluate (Rq.min b.width b.height)) (hr : 0 ≤ m.right.evaluate (Rq.min b.width b.height))
    (hb : 0 ≤ m.bottom.evaluate (Rq.min b.width b.height)) (hl : 0 ≤ m.left.evaluate (Rq.min b.width b.height)) :
    Within (b.shrink_trbl_length m) b := by
  simp only [Within, BoundingBox.shrink_trbl_length]
  refine ⟨by linarith, by linarith, by linarith, by linarith⟩

/-- an inside circle (r = ½·min(w,h), centred) stays within the box -/
theorem inside_circle_inscribed (b : BoundingBox) (hw : 0 ≤ b.width) (hh : 0 ≤ b.height) :
    let r := (1 / 2 : Rat) * Rq.min b.width b.height
    let c := b.center
    Within ⟨c.1 - r, c.2 - r, c.1 + r, c.2 + r⟩ b := by
  intro r c
  have h1 : Rq.min b.width b.height ≤ b.width := rq_min_le_left _ _
  have h2 : Rq.min b.width b.height ≤ b.height := rq_min_le_right _ _
  simp only [Within, c, r, BoundingBox.center, BoundingBox.width, BoundingBox.height] at *
  refine ⟨by linarith, by linarith, by linarith, by linarith⟩

/-- the rect area taken inside a circle of radius `r` (half-side `r·FRAC_1_SQRT_2`) has its corners
    inside the circle: 2·f² ≤ 1 for the f32 constant -/
theorem inscribed_square_in_circle (r : Rat) :
    let s := r * Elem.frac1Sqrt2
    s ^ 2 + s ^ 2 ≤ r ^ 2 := by
  intro s
  have : s ^ 2 + s ^ 2 = r ^ 2 * (2 * Elem.frac1Sqrt2 ^ 2) := by simp only [s]; ring
  rw [this]
  have hf : 2 * Elem.frac1Sqrt2 ^ 2 ≤ 1 := by unfold Elem.frac1Sqrt2; norm_num
  have hr : 0 ≤ r ^ 2 := by positivity
  nlinarith

/-! ### the containment attributes never reach the output -/

/-- `remove_attrs(["surround","inside","margin"])` leaves none of them (AttrMap keys are unique) -/
theorem containment_attrs_removed (e : Elem) (hk : Attrs.NodupKeys e.attrs) :
    let e' := e.removeAttrs [cs!"surround", cs!"inside", cs!"margin"]
    e'.hasAttr cs!"surround" = false ∧ e'.hasAttr cs!"inside" = false ∧ e'.hasAttr cs!"margin" = false := by
  simp only [Elem.removeAttrs, Elem.hasAttr]
  exact ⟨Attrs.contains_removeAll hk _ _ (by simp), Attrs.contains_removeAll hk _ _ (by simp),
         Attrs.contains_removeAll hk _ _ (by simp)⟩

/-- both at once is an error; a missing reference is an error -/
theorem both_is_error (c : Ctx) (e : Elem) (s i : Str)
    (hs : e.getAttr cs!"surround" = some s) (hi : e.getAttr cs!"inside" = some i) :
    e.handleContainment c = .error .invalidData := by
  simp [Elem.handleContainment, hs, hi]

/-- worked instance: surround of (0,0)-(10,10) and (20,5)-(30,25) with margin "1 2" -/
example :
    (Elem.unionAll [⟨0, 0, 10, 10⟩, ⟨20, 5, 30, 25⟩]).map
      (·.expand_trbl_length ⟨.Absolute 1, .Absolute 2, .Absolute 1, .Absolute 2⟩) = some ⟨-2, -1, 32, 26⟩ := by
  decide +kernel

end Svgdx.Props.C12

#print axioms Svgdx.Props.C12.trbl_css_order
#print axioms Svgdx.Props.C12.unionAll_encloses
#print axioms Svgdx.Props.C12.expand_absolute
#print axioms Svgdx.Props.C12.expand_ratio
#print axioms Svgdx.Props.C12.expand_encloses
#print axioms Svgdx.Props.C12.surround_rect_exact
#print axioms Svgdx.Props.C12.sqrt2_defect
#print axioms Svgdx.Props.C12.surround_circle_circumscribes
#print axioms Svgdx.Props.C12.surround_ellipse_circumscribes
#print axioms Svgdx.Props.C12.intersectAll_within
#print axioms Svgdx.Props.C12.shrink_absolute
#print axioms Svgdx.Props.C12.shrink_within
#print axioms Svgdx.Props.C12.inside_circle_inscribed
#print axioms Svgdx.Props.C12.inscribed_square_in_circle
#print axioms Svgdx.Props.C12.containment_attrs_removed
#print axioms Svgdx.Props.C12.both_is_error
