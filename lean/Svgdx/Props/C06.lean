/-
  C06 — Determinism: same input and configuration give the same bytes, every time.

  The model is a function: every definition of `Svgdx.*` takes its complete state as arguments and there
  is no other state, so for the modelled core determinism holds by construction, and whatever agrees
  with the model (the correspondence streams of every other property) is deterministic where it agrees.
  What the theorems below add is the part a function cannot show by itself:
   * the places in the real code where iteration order, time or shared state could enter are exactly
     the reviewed ones (`nondet_sites_reviewed`, regenerated from /repo/src on every run);
   * where a hash set is iterated - the injected style rules and definitions - the result depends on the
     set only, not on the order or multiplicity in which its elements are met (`styles_depend_on_set_only`);
   * generated output is emitted in document order whatever order elements were resolved in
     (`output_order_fixed`), and the retry loop's result does not depend on that order either (C10);
   * the clock is read in one function only, for the one permitted exception (`clock_only_for_local_id`).
  Different processes (different hash seeds) are compared by the repeat/new-process stream.
-/
import Svgdx.Gen.Audit
import Svgdx.Props.C20
import Svgdx.Props.C10

namespace Svgdx.Props.C06
open Svgdx

/-- reviewed sites (file, function, kind, occurrences) -/
def reviewedNondetSites : List (Str × Str × Str × Nat) := [
  (cs!"colours.rs", cs!"(static COLOUR_LIST)", cs!"static", 1),   -- constant table
  (cs!"colours.rs", cs!"(static DARK_COLOURS)", cs!"static", 1),   -- constant table
  (cs!"context.rs", cs!"(item)", cs!"HashMap", 3),   -- type of a field / signature: lookups by key only
  (cs!"context.rs", cs!"Scope::with_vars", cs!"HashMap", 1),   -- variable scope: lookups by name only
  (cs!"context.rs", cs!"TransformerContext::default", cs!"HashMap", 2),   -- empty maps
  (cs!"context.rs", cs!"TransformerContext::set_config", cs!"SystemTime", 1),   -- wall clock: ONLY for the randomised root id under use_local_styles (the permitted exception)
  (cs!"context.rs", cs!"TransformerContext::set_config", cs!"UNIX_EPOCH", 1),   -- wall clock: ONLY for the randomised root id under use_local_styles (the permitted exception)
  (cs!"element.rs", cs!"SvgElement::get_attrs", cs!"HashMap", 1),   -- copy of the attributes as a map; iterated in reuse.rs, each key handled independently
  (cs!"themes.rs", cs!"(item)", cs!"HashSet", 2),   -- type of a field / signature: lookups by key only
  (cs!"themes.rs", cs!"ThemeBuilder::new", cs!"HashSet", 2),   -- the class / element sets; iterated only after sorting (append_pattern_styles) or by membership tests
  (cs!"transform.rs", cs!"Transformer::write_auto_styles", cs!"HashSet", 2),   -- collects the class and element sets handed to ThemeBuilder
  (cs!"transform.rs", cs!"Transformer::write_root_svg", cs!"HashMap", 1)   -- root attributes by name: lookups only
]

/-- **no source of nondeterminism outside the reviewed list** -/
theorem nondet_sites_reviewed : Gen.Audit.nondetSites = reviewedNondetSites := rfl

/-- **the clock is read in one function only** (the randomised root id of `use_local_styles`) -/
theorem clock_only_for_local_id :
    (Gen.Audit.nondetSites.filter (fun s => s.2.2.1 == cs!"SystemTime")).map (fun s => (s.1, s.2.1)) =
      [(cs!"context.rs", cs!"TransformerContext::set_config")] := by decide

/-- no OS randomness, environment access or random hash state is named anywhere -/
theorem no_ambient_randomness :
    Gen.Audit.nondetSites.filter (fun s =>
      [cs!"thread_rng", cs!"OsRng", cs!"getrandom", cs!"env", cs!"RandomState", cs!"Instant"].contains s.2.2.1) = [] := by decide

/-- **the injected rules and definitions depend on the SET of classes and elements only**: any two
    enumerations of the same sets - in any order, with any repetitions - give identical output -/
theorem styles_depend_on_set_only (cfg : Theme.ThemeCfg) (c₁ c₂ e₁ e₂ : List Str)
    (hc : ∀ x, x ∈ c₁ ↔ x ∈ c₂) (he : ∀ x, x ∈ e₁ ↔ x ∈ e₂) :
    Theme.build cfg c₁ e₁ = Theme.build cfg c₂ e₂ :=
  C20.build_mem_invariant cfg c₁ c₂ e₁ e₂ hc he

/-- **output is emitted in document order** whatever the order of resolution -/
theorem output_order_fixed (outs : List (Nat × List Ctl.Ev)) :
    (Ctl.sortOuts outs).Pairwise (fun a b => a.1 ≤ b.1) ∧ (Ctl.sortOuts outs).Perm outs :=
  C10.output_in_document_order outs

end Svgdx.Props.C06

#print axioms Svgdx.Props.C06.nondet_sites_reviewed
#print axioms Svgdx.Props.C06.clock_only_for_local_id
#print axioms Svgdx.Props.C06.no_ambient_randomness
#print axioms Svgdx.Props.C06.styles_depend_on_set_only
#print axioms Svgdx.Props.C06.output_order_fixed
