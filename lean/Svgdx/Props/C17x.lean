/-
  C17, extension: "documents within the limits are never rejected by them; the depth limit measures
  nesting depth only, so a flat document of any length is accepted" as theorems about the control
  skeleton (Svgdx/Proofs/SmallGaps.lean): for reuse- and config-free documents a depth-limit error can
  only arise when `st.depth + nestingDepth` exceeds the limit, whatever the number of siblings
  (`nesting_within_limit_never_hits_depth_limit`); in particular a sibling list of ANY length of leaf
  elements, comments and text is never rejected by the depth limit
  (`flat_document_never_hits_depth_limit`). Closed instances in `FlatExample` show the bound is tight.
-/
import Svgdx.Proofs.SmallGaps

#print axioms Svgdx.Props.C17x.flat_document_never_hits_depth_limit
#print axioms Svgdx.Props.C17x.nesting_within_limit_never_hits_depth_limit
