/-
  C16 — Loops and conditionals render exactly what their unrolling renders.

  About the control-skeleton model `Svgdx.Ctl` (hand-written from loop_el.rs / transform.rs, tied to the
  code by the doc/loops correspondence stream with the real expression evaluator), parametric in the
  evaluator `ev`, for all fuel.

  * `Svgdx/Proofs/C16Laws.lean` — the steps of the unrolling argument: what one iteration does, that
    iterations only append, when the tests are made, which values the loop variable takes, and that
    `<var v="value"/>` — what the manual unrolling writes before each copy of the body — binds exactly
    like the loop does.
  * `Svgdx/Proofs/Unroll.lean` — the argument itself: **a count loop and the sibling list of its
    unrolled copies give the same final state, the same events and the same box**, whenever every
    element of every copy succeeds at its first attempt (no forward reference has to be retried); plus
    the lemma that makes the comparison meaningful although the two sides spend fuel differently: more
    fuel never changes a result that was not the fuel error (unconditionally, now that limit and fuel
    errors are final inside `<specs>` too).

  * `Svgdx/Proofs/Unroll2.lean` (with `DepthShift.lean`) — the rest of the statement, same premise
    (every element of every copy succeeds at its first attempt): `<if>` with a true test is its body in
    place and with a false test is nothing; `<for>` is the sibling list `<var v=item idx=i/> body ...`;
    `while` / `until` / count loops with or without a loop variable are N copies of the body, N being
    the number of passes the tests allow (`LoopRun`, a trace over the states actually reached); and
    **the embedding**: `pre ++ [control element] ++ post` and `pre ++ unrolling ++ post` give the same
    events, box and final state (`*_among_siblings`, `replacement_among_siblings`) - the body of the
    element runs one nesting level deeper than the inlined copies, which is not observable unless the
    depth limit is hit (`depth_not_observable`, a third mutual induction over the 15 functions).
    The theorems are namespaced `Svgdx.Props.C16x` at the end of Unroll2.lean and listed below.
    Their side conditions are each backed by a kernel-checked counterexample in `Unroll2Example`
    (they are facts about svgdx, not proof artefacts): `<for>` binds items raw while `<var>` evaluates
    its right-hand side (items must be literals); the var limit is checked by `<var>` only; a test /
    head / data expression that draws random numbers leaves a generator state the unrolling never
    sees; an `id` on a control element registers a reuse template; at the depth limit the loop fails
    where its unrolling renders (the premise is that the version WITH the element succeeds); and, since
    `<defaults>` is modelled: `apply_defaults` is run on the `<var/>` elements of the unrolling as on
    any empty-element tag, so a default for `_` or `var` makes them bind extra variables - the premises
    (`FirstTryLoop`, `LoopRun` via `HdrOk`, `ForRun`) now say that no default in force applies to them
    (`VarUntouched` / `ForVarUntouched`; counterexample `defaults_reach_the_unrolled_var`).

  What is still decided per input by the unrolling oracle: bodies that need retries (forward
  references inside or across copies).
-/
import Svgdx.Proofs.C16Laws
import Svgdx.Proofs.Unroll
import Svgdx.Proofs.Unroll2

namespace Svgdx.Props.C16
open Svgdx Ctl Gen
variable {ρ : Type}

/-- **a `<loop count=N>` renders what N consecutive copies of its body render, with the loop variable
    taking start, start+step, …** — as an equation between the loop and its manual unrolling
    (`<var name="v"/>` followed by the body, N times, as one sibling list): same final state (scopes,
    element table, random state, originals, …), same events, same box. Hypotheses: a legal variable name,
    a well-formed state (not inside `<specs>`, a scope exists), the evaluator returns the rendered loop
    values unchanged, every pass succeeds at the first attempt within the limits (`FirstTryLoop`), and
    neither side ran out of model fuel. -/
theorem loop_equals_unrolling (ev : Evalr ρ) (name : Str) (start step : Rat) (N : Nat) (ks : Nodes) (st : St ρ)
    (hname : name ≠ [] ∧ name ≠ ['_'] ∧ name ≠ cs!"__" ∧ name ≠ cs!"id")
    (hok : Ok st)
    (hev : LitEval ev (loopVals start step N))
    (hfirst : FirstTryLoop ev name step ks N st start 0)
    (fL fU : Nat)
    (hL : NF (loopIter ev fL st ks (some N) none none name start step 0 [] none))
    (hU : NF (processNodes ev fU st (unroll name (loopVals start step N) ks))) :
    loopIter ev fL st ks (some N) none none name start step 0 [] none
      = processNodes ev fU st (unroll name (loopVals start step N) ks) :=
  loop_eq_unroll ev name start step N ks st hname hok hev hfirst fL fU hL hU

/-- … and the hypotheses about fuel can be met: from some fuel on both sides SUCCEED with that common
    state, event list and box -/
theorem loop_and_unrolling_succeed (ev : Evalr ρ) (name : Str) (start step : Rat) (N : Nat) (ks : Nodes)
    (st : St ρ) (hname : name ≠ [] ∧ name ≠ ['_'] ∧ name ≠ cs!"__" ∧ name ≠ cs!"id")
    (hok : Ok st)
    (hev : LitEval ev (loopVals start step N))
    (hfirst : FirstTryLoop ev name step ks N st start 0) :
    ∃ F s2 evs bb, ∀ fL fU, F ≤ fL → F ≤ fU →
      loopIter ev fL st ks (some N) none none name start step 0 [] none = (s2, .ok (evs, bb)) ∧
      processNodes ev fU st (unroll name (loopVals start step N) ks) = (s2, .ok (evs, bb)) :=
  loop_unroll_ok ev name start step N ks st hname hok hev hfirst

/-- the same for the `<loop>` ELEMENT with its `count`, `loop-var`, `start`, `step` attributes evaluated -/
theorem loop_element_equals_unrolling (ev : Evalr ρ) (e : Elem) (name : Str) (start step : Rat) (N : Nat)
    (ks : Nodes) (st : St ρ) (rng : ρ) (hcount : (e.getAttr cs!"count").isSome = true)
    (hhead : loopHead ev st e = .ok (some N, name, start, step, rng))
    (hname : name ≠ [] ∧ name ≠ ['_'] ∧ name ≠ cs!"__" ∧ name ≠ cs!"id")
    (hok : Ok st)
    (hev : LitEval ev (loopVals start step N))
    (hfirst : FirstTryLoop ev name step ks N { st with rng := rng } start 0)
    (fL fU : Nat)
    (hL : NF (genLoop ev fL st e (some ks)))
    (hU : NF (processNodes ev fU { st with rng := rng } (unroll name (loopVals start step N) ks))) :
    genLoop ev fL st e (some ks)
      = processNodes ev fU { st with rng := rng } (unroll name (loopVals start step N) ks) :=
  genLoop_eq_unroll ev e name start step N ks st rng hcount hhead hname hok hev hfirst fL fU hL hU

/-- **the model's fuel never decides**: a result that is not the fuel error is the result for every larger
    fuel — for every state and every document (limit and fuel errors are final inside `<specs>` too, so a
    fuel error always reaches the caller) -/
theorem fuel_does_not_decide (ev : Evalr ρ) (f f' : Nat) (st : St ρ) (ks : Nodes) (h : f ≤ f')
    (hnf : NF (processNodes ev f st ks)) :
    processNodes ev f' st ks = processNodes ev f st ks :=
  processNodes_fuel_robust ev f f' st ks h hnf

end Svgdx.Props.C16

#print axioms Svgdx.Props.C16.if_false_renders_nothing
#print axioms Svgdx.Props.C16.if_true_renders_body
#print axioms Svgdx.Props.C16.loop_iteration
#print axioms Svgdx.Props.C16.loop_stops_before_pass
#print axioms Svgdx.Props.C16.until_runs_at_least_once
#print axioms Svgdx.Props.C16.until_stops_after_pass
#print axioms Svgdx.Props.C16.count_test
#print axioms Svgdx.Props.C16.count_zero_renders_nothing
#print axioms Svgdx.Props.C16.loop_var_sequence
#print axioms Svgdx.Props.C16.loop_appends
#print axioms Svgdx.Props.C16.for_iteration
#print axioms Svgdx.Props.C16.for_done
#print axioms Svgdx.Props.C16.for_bindings
#print axioms Svgdx.Props.C16.var_element_binds_like_loop
#print axioms Svgdx.Props.C16.loop_binding
#print axioms Svgdx.Props.C16.loop_equals_unrolling
#print axioms Svgdx.Props.C16.loop_and_unrolling_succeed
#print axioms Svgdx.Props.C16.loop_element_equals_unrolling
#print axioms Svgdx.Props.C16.fuel_does_not_decide
#print axioms Svgdx.Ctl.UnrollExample.loop_is_unrolling
#print axioms Svgdx.Ctl.UnrollExample.firstTry
#print axioms Svgdx.Props.C16x.if_true_equals_body
#print axioms Svgdx.Props.C16x.if_false_equals_nothing
#print axioms Svgdx.Props.C16x.if_true_among_siblings
#print axioms Svgdx.Props.C16x.if_false_among_siblings
#print axioms Svgdx.Props.C16x.for_equals_unrolling
#print axioms Svgdx.Props.C16x.for_and_unrolling_succeed
#print axioms Svgdx.Props.C16x.for_element_equals_unrolling
#print axioms Svgdx.Props.C16x.for_among_siblings
#print axioms Svgdx.Props.C16x.while_loop_equals_unrolling
#print axioms Svgdx.Props.C16x.until_loop_equals_unrolling
#print axioms Svgdx.Props.C16x.until_at_least_once
#print axioms Svgdx.Props.C16x.loop_element_any_mode_equals_unrolling
#print axioms Svgdx.Props.C16x.loop_and_unrolling_succeed
#print axioms Svgdx.Props.C16x.loop_among_siblings
#print axioms Svgdx.Props.C16x.replacement_among_siblings
#print axioms Svgdx.Props.C16x.depth_not_observable
#print axioms Svgdx.Ctl.Unroll2Example.defaults_reach_the_unrolled_var
