/-
  C09 — Relative positioning places elements exactly where the relspec says.

  Theorems about the GENERATED geometry (`Gen.BoundingBox.locspec`, `Gen.Length.calc_offset`,
  `Gen.Position.to_bbox`, the generated `xy-loc` and `LocSpec` tables) and about the numeric core
  `Elem.dirPlace` of the hand model of `eval_rel_position`; the string-level pipeline around them is
  tied to the code by the `resolve/relspec` and `doc/relspec` correspondence streams.
-/
import Svgdx.Geom.Resolve
import Mathlib.Tactic.Ring
import Mathlib.Tactic.Linarith
import Mathlib.Tactic.FieldSimp

namespace Svgdx.Props.C09
open Svgdx Gen

/-! ### `|h |H |v |V`: beside the referenced box, centred on the shared axis, separated by the gap -/

/-- the box of size `tw × th` whose top-left corner `dirPlace` returns -/
def placed (rel : DirSpec) (ref : BoundingBox) (tw th gap : Rat) : BoundingBox :=
  let p := Elem.dirPlace rel ref tw th gap
  ⟨p.1, p.2, p.1 + tw, p.2 + th⟩

def cx (b : BoundingBox) : Rat := (b.x1 + b.x2) / 2
def cy (b : BoundingBox) : Rat := (b.y1 + b.y2) / 2

theorem dir_h (ref : BoundingBox) (tw th gap : Rat) :
    (placed .InFront ref tw th gap).x1 = ref.x2 + gap ∧ cy (placed .InFront ref tw th gap) = cy ref := by
  simp only [placed, Elem.dirPlace, DirSpec.to_locspec, BoundingBox.locspec, cy]
  constructor <;> (first | trivial | rfl | ring)

theorem dir_H (ref : BoundingBox) (tw th gap : Rat) :
    (placed .Behind ref tw th gap).x2 = ref.x1 - gap ∧ cy (placed .Behind ref tw th gap) = cy ref := by
  simp only [placed, Elem.dirPlace, DirSpec.to_locspec, BoundingBox.locspec, cy]
  constructor <;> (first | trivial | rfl | ring)

theorem dir_v (ref : BoundingBox) (tw th gap : Rat) :
    (placed .Below ref tw th gap).y1 = ref.y2 + gap ∧ cx (placed .Below ref tw th gap) = cx ref := by
  simp only [placed, Elem.dirPlace, DirSpec.to_locspec, BoundingBox.locspec, cx]
  constructor <;> (first | trivial | rfl | ring)

theorem dir_V (ref : BoundingBox) (tw th gap : Rat) :
    (placed .Above ref tw th gap).y2 = ref.y1 - gap ∧ cx (placed .Above ref tw th gap) = cx ref := by
  simp only [placed, Elem.dirPlace, DirSpec.to_locspec, BoundingBox.locspec, cx]
  constructor <;> (first | trivial | rfl | ring)

/-- the placed box keeps its size in every direction -/
theorem dir_size (rel : DirSpec) (ref : BoundingBox) (tw th gap : Rat) :
    (placed rel ref tw th gap).width = tw ∧ (placed rel ref tw th gap).height = th := by
  simp only [placed, BoundingBox.width, BoundingBox.height]
  constructor <;> ring

/-! ### chains of any length -/

/-- a left-to-right chain `xy="^|h gap"` of elements `(w, h, gap)` starting from `ref` -/
def chainH (ref : BoundingBox) : List (Rat × Rat × Rat) → BoundingBox
  | [] => ref
  | (w, h, g) :: rest => chainH (placed .InFront ref w h g) rest

/-- **reference chains of any length**: the last box of an `|h` chain starts exactly at the first box's
    right edge plus all gaps and all intermediate widths, and is still centred on the first box's axis. -/
theorem chainH_exact (ref : BoundingBox) (l : List (Rat × Rat × Rat)) :
    (chainH ref l).x2 = ref.x2 + (l.map fun e => e.2.2 + e.1).sum ∧ cy (chainH ref l) = cy ref := by
  induction l generalizing ref with
  | nil => simp [chainH]
  | cons e rest ih =>
    obtain ⟨w, h, g⟩ := e
    have hh := dir_h ref w h g
    have ih' := ih (placed .InFront ref w h g)
    simp only [chainH, List.map_cons, List.sum_cons]
    constructor
    · rw [ih'.1]
      have : (placed .InFront ref w h g).x2 = ref.x2 + g + w := by
        simp only [placed, Elem.dirPlace, DirSpec.to_locspec, BoundingBox.locspec]
      rw [this]; ring
    · rw [ih'.2, hh.2]

/-! ### `@loc`: the nine named locations and the four edges -/

theorem locspec_named (b : BoundingBox) :
    b.locspec .TopLeft = (b.x1, b.y1) ∧ b.locspec .Top = (cx b, b.y1) ∧ b.locspec .TopRight = (b.x2, b.y1) ∧
    b.locspec .Right = (b.x2, cy b) ∧ b.locspec .BottomRight = (b.x2, b.y2) ∧ b.locspec .Bottom = (cx b, b.y2) ∧
    b.locspec .BottomLeft = (b.x1, b.y2) ∧ b.locspec .Left = (b.x1, cy b) ∧ b.locspec .Center = (cx b, cy b) := by
  simp [BoundingBox.locspec, cx, cy]

/-- edge offsets: positive units from the start, negative units back from the end, percent of the edge -/
theorem edge_offset_semantics (s e a r : Rat) (hse : s ≤ e) :
    (0 ≤ a → (Length.Absolute a).calc_offset s e = s + a) ∧
    (a < 0 → (Length.Absolute a).calc_offset s e = e + a) ∧
    (Length.Ratio r).calc_offset s e = s + (e - s) * r := by
  refine ⟨fun ha => ?_, fun ha => ?_, ?_⟩
  · have h1 : ¬ e < s := not_lt.mpr hse
    have h2 : ¬ a < 0 := not_lt.mpr ha
    simp [Length.calc_offset, h1, h2]
  · have h1 : ¬ e < s := not_lt.mpr hse
    simp [Length.calc_offset, h1, ha]
  · simp [Length.calc_offset]

/-- the same along a range that runs backwards (the travel of a connector from right to left or from
    bottom to top): positive units lead from the start towards the end, negative units lead back from
    the end towards the start - either way the offset point lies on the far side of the point it is
    measured from -/
theorem edge_offset_semantics_reversed (s e a : Rat) (hse : e < s) :
    (0 ≤ a → (Length.Absolute a).calc_offset s e = s - a) ∧
    (a < 0 → (Length.Absolute a).calc_offset s e = e - a) := by
  refine ⟨fun ha => ?_, fun ha => ?_⟩
  · have h2 : ¬ a < 0 := not_lt.mpr ha
    simp [Length.calc_offset, hse, h2]
    ring
  · simp [Length.calc_offset, hse, ha]
    ring

theorem edge_points (b : BoundingBox) (l : Length) :
    b.locspec (.TopEdge l) = (l.calc_offset b.x1 b.x2, b.y1) ∧
    b.locspec (.BottomEdge l) = (l.calc_offset b.x1 b.x2, b.y2) ∧
    b.locspec (.LeftEdge l) = (b.x1, l.calc_offset b.y1 b.y2) ∧
    b.locspec (.RightEdge l) = (b.x2, l.calc_offset b.y1 b.y2) := by
  simp [BoundingBox.locspec]

/-- percent offsets hit the ends and the middle -/
theorem ratio_ends (s e : Rat) :
    (Length.Ratio 0).calc_offset s e = s ∧ (Length.Ratio 1).calc_offset s e = e ∧
    (Length.Ratio (1/2)).calc_offset s e = (s + e) / 2 := by
  simp only [Length.calc_offset]
  refine ⟨by ring, by ring, by ring⟩

/-! ### anchors: the location chosen by `xy-loc` (or the centre for `cxy`) lands on the target point -/

/-- the `Position` that results from writing the target point `(X, Y)` into the attribute pair
    `(xa, ya)` of an element of size `w × h` (what `expand_compound_pos` + `Position::from` do) -/
def positionWith (xa ya : Str) (X Y w h : Rat) : Position :=
  { xmin := if xa == ['x'] || xa == cs!"x1" then some X else none,
    xmax := if xa == cs!"x2" then some X else none,
    cx := if xa == cs!"cx" then some X else none,
    ymin := if ya == ['y'] || ya == cs!"y1" then some Y else none,
    ymax := if ya == cs!"y2" then some Y else none,
    cy := if ya == cs!"cy" then some Y else none,
    width := some w, height := some h, dx := none, dy := none, shape := cs!"rect" }

/-- **every row of the generated `xy-loc` table is right**: after solving, the point of the element named by
    the `xy-loc` key is the requested point. Joins three generated artefacts: the `xy-loc` table
    (element.rs), the `LocSpec` name table and `locspec`/`to_bbox` (position.rs). -/
theorem xy_loc_anchor_on_target (X Y w h : Rat) :
    ∀ row ∈ Gen.Element.xyLocTable, ∀ loc, parseLocSpec row.1 = some loc →
      ((positionWith row.2.1 row.2.2 X Y w h).to_bbox).map (fun b => b.locspec loc) = some (X, Y) := by
  intro row hrow loc hloc
  simp only [Gen.Element.xyLocTable, List.mem_cons, List.mem_nil_iff, or_false] at hrow
  rcases hrow with rfl | rfl | rfl | rfl | rfl | rfl | rfl | rfl <;>
    (simp [parseLocSpec, Attrs.lookupTable, LocSpec.fromStrTable] at hloc; subst hloc
     simp [positionWith, Position.to_bbox, Position.x_def, Position.y_def, Position.extent,
       BoundingBox.new, BoundingBox.locspec])

/-- the table has exactly the eight non-default anchors -/
theorem xy_loc_table_keys :
    Gen.Element.xyLocTable.map (·.1) = [['t'], cs!"tr", ['r'], cs!"br", ['b'], cs!"bl", ['l'], ['c']] := by
  decide

/-- default anchor (no `xy-loc`): top-left; `cxy`: centre -/
theorem default_and_centre_anchor (X Y w h : Rat) :
    ((positionWith ['x'] ['y'] X Y w h).to_bbox).map (fun b => b.locspec .TopLeft) = some (X, Y) ∧
    ((positionWith cs!"cx" cs!"cy" X Y w h).to_bbox).map (fun b => b.locspec .Center) = some (X, Y) := by
  constructor <;>
    simp [positionWith, Position.to_bbox, Position.x_def, Position.y_def, Position.extent,
      BoundingBox.new, BoundingBox.locspec]

/-! ### scalar references and relative sizes -/

theorem scalarspec_values (b : BoundingBox) (hx : b.x1 ≤ b.x2) (hy : b.y1 ≤ b.y2) :
    b.scalarspec .Minx = b.x1 ∧ b.scalarspec .Maxx = b.x2 ∧ b.scalarspec .Miny = b.y1 ∧
    b.scalarspec .Maxy = b.y2 ∧ b.scalarspec .Cx = cx b ∧ b.scalarspec .Cy = cy b ∧
    b.scalarspec .Width = b.x2 - b.x1 ∧ b.scalarspec .Height = b.y2 - b.y1 ∧
    b.scalarspec .Rx = (b.x2 - b.x1) / 2 ∧ b.scalarspec .Ry = (b.y2 - b.y1) / 2 := by
  have h1 : ¬ b.x2 - b.x1 < 0 := by linarith
  have h2 : ¬ b.y2 - b.y1 < 0 := by linarith
  simp [BoundingBox.scalarspec, Rq.abs, h1, h2, cx, cy]

/-- `#id 50%` scales, `#id 3` adds: relative sizes and `dw`/`dh` -/
theorem size_adjust (v a r : Rat) :
    (Length.Absolute a).adjust v = v + a ∧ (Length.Ratio r).adjust v = v * r := by
  simp [Length.adjust]

/-- non-vacuity / worked instance: `xy="#a|h 5"` with `wh="4 6"` beside (0,0)-(10,20) -/
example : placed .InFront ⟨0, 0, 10, 20⟩ 4 6 5 = ⟨15, 7, 19, 13⟩ := by decide +kernel

end Svgdx.Props.C09

#print axioms Svgdx.Props.C09.dir_h
#print axioms Svgdx.Props.C09.dir_H
#print axioms Svgdx.Props.C09.dir_v
#print axioms Svgdx.Props.C09.dir_V
#print axioms Svgdx.Props.C09.dir_size
#print axioms Svgdx.Props.C09.chainH_exact
#print axioms Svgdx.Props.C09.locspec_named
#print axioms Svgdx.Props.C09.edge_offset_semantics
#print axioms Svgdx.Props.C09.edge_offset_semantics_reversed
#print axioms Svgdx.Props.C09.edge_points
#print axioms Svgdx.Props.C09.ratio_ends
#print axioms Svgdx.Props.C09.xy_loc_anchor_on_target
#print axioms Svgdx.Props.C09.xy_loc_table_keys
#print axioms Svgdx.Props.C09.default_and_centre_anchor
#print axioms Svgdx.Props.C09.scalarspec_values
#print axioms Svgdx.Props.C09.size_adjust
