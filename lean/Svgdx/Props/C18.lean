/-
  C18 — Reuse instantiates templates as if written out by hand.

  About the model of reuse.rs inside the control skeleton (`Svgdx.Ctl.genReuse`, `reusePrepare`,
  `reuseInstance`; hand-written, tied to the code by the doc/reuse correspondence stream, which agrees
  event for event on templates of every kind), parametric in the evaluator and for all fuel.
-/
import Svgdx.Proofs.CtlInv
import Svgdx.Proofs.Attrs

namespace Svgdx.Props.C18
open Svgdx Ctl Gen Attrs
variable {ρ : Type} (ev : Evalr ρ)

/-! ### the bindings are a scope around the instance, for every outcome -/

/-- **the reuse element's attributes are bound exactly for the duration of the instance**: whatever the
    outcome (success, unknown template, failing content, limit error), variable scopes, element stack,
    depth and the in-specs flag are as before — instances cannot leak bindings into one another -/
theorem reuse_restores_state (fuel : Nat) (st : St ρ) (e : Elem) (h : st.scopes ≠ []) :
    let st' := (genReuse ev fuel st e).1
    st'.scopes.tail = st.scopes.tail ∧ st'.scopes ≠ [] ∧ st'.elemStack = st.elemStack ∧
    st'.depth = st.depth ∧ st'.inSpecs = st.inSpecs := by
  have := (allInv ev fuel).genReuse st e h
  exact ⟨this.2.1, this.2.2.1, this.2.2.2.1, this.1, this.2.2.2.2⟩

/-! ### what the instance carries -/

theorem mem_classInsert_self (cs : List Str) (c : Str) : c ∈ classInsert cs c := by
  unfold classInsert
  split
  · rename_i h; simpa using h
  · simp

theorem mem_classInsert_of_mem (cs : List Str) (c d : Str) (h : c ∈ cs) : c ∈ classInsert cs d := by
  unfold classInsert
  split
  · exact h
  · simp [h]

theorem mem_foldl_addClass (cl : List Str) : ∀ (a : Elem) (c : Str), (c ∈ a.classes ∨ c ∈ cl) →
    c ∈ (cl.foldl (fun (a : Elem) c => a.addClass c) a).classes := by
  induction cl with
  | nil => intro a c h; simpa using h
  | cons d ds ih =>
    intro a c h
    simp only [List.foldl_cons]
    apply ih
    rcases h with h | h
    · exact Or.inl (mem_classInsert_of_mem _ _ _ h)
    · rcases List.mem_cons.mp h with rfl | h
      · exact Or.inl (mem_classInsert_self _ _)
      · exact Or.inr h

theorem foldl_addClass_attrs (cl : List Str) : ∀ (a : Elem),
    (cl.foldl (fun (a : Elem) c => a.addClass c) a).attrs = a.attrs ∧
    (cl.foldl (fun (a : Elem) c => a.addClass c) a).name = a.name := by
  induction cl with
  | nil => intro a; exact ⟨rfl, rfl⟩
  | cons d ds ih => intro a; simp only [List.foldl_cons]; exact ih _

/-- **the instance carries the reuse element's classes** -/
theorem instance_has_reuse_classes (re inst : Elem) (c : Str) (h : c ∈ re.classes) :
    c ∈ (reuseDress re inst).classes := by
  unfold reuseDress
  dsimp only
  have hm := mem_foldl_addClass re.classes
  split <;> first
    | exact mem_classInsert_of_mem _ _ _ (hm _ c (Or.inr h))
    | exact hm _ c (Or.inr h)

/-- **… and the template's id as a class** -/
theorem template_id_becomes_class (re inst : Elem) (t : Str) (h : (inst.popAttr cs!"id").2 = some t) :
    t ∈ (reuseDress re inst).classes := by
  unfold reuseDress
  simp only [h]
  exact mem_classInsert_self _ _

/-- **the instance keeps its own classes** (so template classes + reuse classes + template id) -/
theorem instance_keeps_template_classes (re inst : Elem) (c : Str) (h : c ∈ inst.classes) :
    c ∈ (reuseDress re inst).classes := by
  unfold reuseDress
  dsimp only
  have hm := mem_foldl_addClass re.classes
  have h0 : c ∈ (inst.popAttr cs!"id").1.classes := by simpa [Elem.popAttr] using h
  have hs : ∀ (x : Elem) k v, c ∈ x.classes → c ∈ (x.setAttr k v).classes := fun x k v hx => by simpa [Elem.setAttr] using hx
  have h1 : c ∈ (match re.getAttr cs!"id" with
      | some i => (inst.popAttr cs!"id").1.setAttr cs!"id" i
      | none => (inst.popAttr cs!"id").1).classes := by split <;> first | exact hs _ _ _ h0 | exact h0
  have h2 : c ∈ (match re.getAttr cs!"style" with
      | some s => (match re.getAttr cs!"id" with
          | some i => (inst.popAttr cs!"id").1.setAttr cs!"id" i
          | none => (inst.popAttr cs!"id").1).setAttr cs!"style" s
      | none => (match re.getAttr cs!"id" with
          | some i => (inst.popAttr cs!"id").1.setAttr cs!"id" i
          | none => (inst.popAttr cs!"id").1)).classes := by split <;> first | exact hs _ _ _ h1 | exact h1
  split <;> first
    | exact mem_classInsert_of_mem _ _ _ (hm _ c (Or.inl h2))
    | exact hm _ c (Or.inl h2)

def idStep (re : Elem) (a : Attrs) : Attrs :=
  match re.getAttr cs!"id" with
  | some i => a.insert cs!"id" i
  | none => a

def styleStep (re : Elem) (a : Attrs) : Attrs :=
  match re.getAttr cs!"style" with
  | some s => a.insert cs!"style" s
  | none => a

/-- the attributes of the dressed copy: the template's id removed, then id and style of the reuse element -/
theorem reuseDress_attrs (re inst : Elem) :
    (reuseDress re inst).attrs = styleStep re (idStep re (Attrs.pop inst.attrs cs!"id").1) := by
  unfold reuseDress idStep styleStep
  dsimp only [Elem.popAttr]
  cases h1 : re.getAttr cs!"id" <;> cases h2 : re.getAttr cs!"style" <;>
    cases h3 : (Attrs.pop inst.attrs cs!"id").2 <;>
    simp only [Elem.addClass, Elem.setAttr] <;>
    (first
      | exact (foldl_addClass_attrs re.classes _).1
      | (have := (foldl_addClass_attrs re.classes
            ({ inst with attrs := (Attrs.pop inst.attrs cs!"id").1 } : Elem)).1; simp_all [Elem.addClass]))

theorem pop_id_gone {a : Attrs} (hn : NodupKeys a) :
    NodupKeys (Attrs.pop a cs!"id").1 ∧ get (Attrs.pop a cs!"id").1 cs!"id" = none := by
  refine ⟨by simpa [remove] using remove_nodup hn cs!"id", ?_⟩
  have := contains_remove_self hn cs!"id"
  simp only [remove] at this
  cases hg : get (pop a cs!"id").1 cs!"id" with
  | none => rfl
  | some v =>
    exfalso
    have hc : contains (pop a cs!"id").1 cs!"id" = true := by
      unfold Attrs.contains
      rw [hg]; rfl
    rw [hc] at this
    exact Bool.noConfusion this

/-- **the instance has the reuse element's id, or none**: the template's own id never survives, so no
    two elements share an id -/
theorem instance_id (re inst : Elem) (hn : NodupKeys inst.attrs) :
    (reuseDress re inst).getAttr cs!"id" = re.getAttr cs!"id" := by
  obtain ⟨hp, hgone⟩ := pop_id_gone hn
  simp only [Elem.getAttr, reuseDress_attrs]
  have h1 : get (idStep re (Attrs.pop inst.attrs cs!"id").1) cs!"id" = re.attrs.get cs!"id" ∧
      NodupKeys (idStep re (Attrs.pop inst.attrs cs!"id").1) := by
    unfold idStep
    simp only [Elem.getAttr]
    cases hr : re.attrs.get cs!"id" with
    | none => exact ⟨hgone, hp⟩
    | some i => exact ⟨get_insert_self hp _ _, insert_nodup hp _ _⟩
  unfold styleStep
  split
  · rw [get_insert_other h1.2 _ _ _ (by decide)]; exact h1.1
  · exact h1.1

/-- **the reuse element's style is inherited** -/
theorem instance_style (re inst : Elem) (hn : NodupKeys inst.attrs) (s : Str)
    (h : re.getAttr cs!"style" = some s) :
    (reuseDress re inst).getAttr cs!"style" = some s := by
  obtain ⟨hp, _⟩ := pop_id_gone hn
  simp only [Elem.getAttr, reuseDress_attrs]
  have n1 : NodupKeys (idStep re (Attrs.pop inst.attrs cs!"id").1) := by
    unfold idStep
    split
    · exact insert_nodup hp _ _
    · exact hp
  unfold styleStep
  simp only [h]
  exact get_insert_self n1 _ _

/-- a symbol is instantiated as a group -/
theorem symbol_becomes_group (re inst : Elem) (h : (reuseDress re (reuseOverride re inst)).name = cs!"symbol") :
    (reuseInstance re inst).name = ['g'] := by
  simp [reuseInstance, h, Elem.withAttrsFrom, Elem.new]

/-! ### instances are independent of the template and of one another -/

theorem lookup_orInsert {β : Type} (t : List (Str × β)) (j : Str) (y : β) (i : Str) (x : β)
    (h : lookupTable t i = some x) :
    lookupTable (if (lookupTable t j).isSome then t else (j, y) :: t) i = some x := by
  split
  · exact h
  · rename_i hk
    simp only [lookupTable]
    split
    · rename_i heq
      have : j = i := by simpa using heq
      subst this
      simp [h] at hk
    · exact h

/-- the table of originals only ever gains entries: registering (resolved) elements … -/
theorem update_keeps_originals (st : St ρ) (e : Elem) (i : Str) (x : Elem × Option Nodes)
    (h : lookupTable st.originals i = some x) :
    lookupTable (updateElement ev st e).originals i = some x := by
  unfold updateElement
  split
  · exact h
  · exact lookup_orInsert _ _ _ _ _ h

/-- … and registering originals: the first form seen of an id stays the template, so every instance
    starts from the same, unevaluated original -/
theorem register_keeps_originals (st : St ρ) (e : Elem) (k : Option Nodes) (i : Str) (x : Elem × Option Nodes)
    (h : lookupTable st.originals i = some x) :
    lookupTable (registerOriginal ev st e k).originals i = some x := by
  unfold registerOriginal
  split
  · exact h
  · exact lookup_orInsert _ _ _ _ _ h

theorem seq_keeps {α β : Type} (i : Str) (x : Elem × Option Nodes) (y : St ρ × Except CErr α)
    (f : St ρ → α → St ρ × Except CErr β)
    (hy : lookupTable y.1.originals i = some x)
    (hf : ∀ v, lookupTable (f y.1 v).1.originals i = some x) :
    lookupTable (seq y f).1.originals i = some x := by
  unfold seq
  split
  · exact hy
  · exact hf _

theorem withRng_originals {α : Type} (st : St ρ) (r : Except Err (α × ρ)) :
    (withRng st r).1.originals = st.originals := by
  unfold withRng; split <;> rfl

/-- preparing an instance reads the original and leaves the table as it is, up to new registrations -/
theorem prepare_keeps_originals (st : St ρ) (re : Elem) (i : Str) (x : Elem × Option Nodes)
    (h : lookupTable st.originals i = some x) :
    lookupTable (reusePrepare ev st re).1.originals i = some x := by
  unfold reusePrepare
  split
  · exact h
  · split
    · exact h
    · exact h
    · split
      · exact h
      · apply seq_keeps
        · rw [withRng_originals]; exact h
        · intro inst1
          have h1 : ∀ o : Elem, lookupTable (withRng st (evalAttributes ev st o)).1.originals i = some x := by
            intro o; rw [withRng_originals]; exact h
          split
          · exact h1 _
          · dsimp only
            split
            · exact h1 _
            · dsimp only
              split
              · exact update_keeps_originals ev _ _ i x (h1 _)
              · exact h1 _

/-! ### `<specs>` -/

/-- **content of `<specs>` is never rendered**: whatever it contains, a successful specs block
    contributes no output and no extent -/
theorem specs_never_rendered (fuel : Nat) (st : St ρ) (kids : Option Nodes) (r : List Ev × Option BoundingBox)
    (h : (genSpecs ev fuel st kids).2 = .ok r) : r = ([], none) := by
  cases fuel with
  | zero => simp [genSpecs] at h
  | succ fuel =>
    unfold genSpecs at h
    split at h
    · simp at h
    · split at h
      · dsimp only at h
        split at h
        · simpa using h.symm
        · simp at h
      · simpa using h.symm

/-- **… yet stays referencable**: an element met in a pass is recorded as the original of its id before
    it is evaluated, whether or not it can be resolved where it stands -/
theorem early_registration_records_original (st : St ρ) (e : Elem) (kids : Option Nodes) (tail : Option Str)
    (i : Str) (r : ρ) (hid : e.getAttr cs!"id" = some i)
    (hev : ev.evalAttr st.geo st.env st.rng i = .ok (i, r)) :
    (lookupTable (registerEarly ev st (.elem e kids tail)).originals i).isSome = true := by
  simp only [registerEarly, registerOriginal, hid, hev]
  split
  · rename_i hk; exact hk
  · simp [lookupTable]

/-! ### placement -/

/-- **a group instance is placed by a translation**: with a position whose box starts at (x, y) ≠ (0, 0)
    and no transform of its own, the instance gets `transform="translate(x, y)"` -/
theorem group_instance_translated (p : Position) (e : Elem) (bbox : BoundingBox)
    (hb : p.to_bbox = some bbox) (hg : e.name = ['g']) (hn : NodupKeys e.attrs)
    (ht : e.getAttr cs!"transform" = none) (hxy : bbox.x1 ≠ 0 ∨ bbox.y1 ≠ 0) :
    (Elem.setPositionAttrs p e).getAttr cs!"transform" = some (Elem.translateStr bbox.x1 bbox.y1) := by
  have hl : bbox.locspec LocSpec.TopLeft = (bbox.x1, bbox.y1) := by
    simp [BoundingBox.locspec]
  unfold Elem.setPositionAttrs
  simp only [hb, hg]
  have hc : (bbox.x1 != 0 || bbox.y1 != 0) = true := by
    rcases hxy with h | h <;> simp [h]
  have ht' : e.attrs.get cs!"transform" = none := ht
  simp [hl, hc, ht', Elem.getAttr, Elem.setAttr, get_insert_self hn]

end Svgdx.Props.C18

#print axioms Svgdx.Props.C18.reuse_restores_state
#print axioms Svgdx.Props.C18.instance_has_reuse_classes
#print axioms Svgdx.Props.C18.template_id_becomes_class
#print axioms Svgdx.Props.C18.instance_keeps_template_classes
#print axioms Svgdx.Props.C18.instance_id
#print axioms Svgdx.Props.C18.instance_style
#print axioms Svgdx.Props.C18.symbol_becomes_group
#print axioms Svgdx.Props.C18.update_keeps_originals
#print axioms Svgdx.Props.C18.register_keeps_originals
#print axioms Svgdx.Props.C18.prepare_keeps_originals
#print axioms Svgdx.Props.C18.specs_never_rendered
#print axioms Svgdx.Props.C18.early_registration_records_original
#print axioms Svgdx.Props.C18.group_instance_translated
