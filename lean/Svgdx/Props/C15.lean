/-
  C15 — Variable scoping is lexical and unaffected by evaluation order.

  About the control-skeleton model `Svgdx.Ctl` (tied to context.rs / transform.rs / reuse.rs by the probe
  and document correspondence streams), parametric in the expression evaluator.
-/
import Svgdx.Proofs.CtlInv

namespace Svgdx.Props.C15
open Svgdx Ctl

variable {ρ : Type}

/-- **innermost definition wins**: lookup scans the scope stack from the innermost scope outwards -/
theorem lookup_innermost (s : Scope) (rest : List Scope) (name : Str) :
    getVar (s :: rest) name = (Attrs.lookupTable s.vars name).or (getVar rest name) := by
  cases h : Attrs.lookupTable s.vars name <;> simp [getVar, h]

/-- the attributes of an enclosing `<g>` / `<reuse>` shadow outer values … -/
theorem element_attrs_shadow (st : St ρ) (e : Elem) (k : Str) :
    (st.pushElement e).lookup k = (e.attrs.get k).or (st.lookup k) := by
  cases h : Attrs.lookupTable e.attrs k <;> simp [St.pushElement, St.lookup, getVar, Attrs.get, h]

/-- … and every enclosing scope, the element stack, the depth counter and the in-specs flag are exactly
    as before once ANY element has been processed — whatever the outcome, in particular when the
    element failed because of a forward reference and will be re-evaluated later -/
theorem scopes_restored (ev : Evalr ρ) (fuel : Nat) (st : St ρ) (e : Elem) (kids : Option Nodes)
    (h : st.scopes ≠ []) :
    let st' := (genElem ev fuel st e kids).1
    st'.scopes.tail = st.scopes.tail ∧ st'.scopes.length = st.scopes.length ∧
    st'.elemStack = st.elemStack ∧ st'.inSpecs = st.inSpecs := by
  have hi := (allInv ev fuel).genElem st e kids h
  refine ⟨hi.2.1, ?_, hi.2.2.2.1, hi.2.2.2.2⟩
  have h1 := hi.2.1
  have h2 := hi.2.2.1
  cases hs : (genElem ev fuel st e kids).1.scopes with
  | nil => exact absurd hs h2
  | cons a as =>
    cases ht : st.scopes with
    | nil => exact absurd ht h
    | cons b bs =>
      rw [hs, ht] at h1
      simp only [List.tail_cons] at h1
      simp [h1]

theorem withRng_scopes {α : Type} (st : St ρ) (r : Except Err (α × ρ)) : (withRng st r).1.scopes = st.scopes := by
  unfold withRng; split <;> rfl

theorem lookupTable_append {β : Type} (a b : List (Str × β)) (k : Str) :
    Attrs.lookupTable (a ++ b) k = (Attrs.lookupTable a k).or (Attrs.lookupTable b k) := by
  induction a with
  | nil => simp [Attrs.lookupTable]
  | cons p rest ih =>
    obtain ⟨k', v⟩ := p
    simp only [List.cons_append, Attrs.lookupTable]
    split <;> simp [ih]

/-- the flattened environment handed to the expression evaluator denotes exactly `get_var`:
    innermost scope first -/
theorem env_denotes_lookup (st : St ρ) (k : Str) : Attrs.lookupTable st.env k = st.lookup k := by
  unfold St.env St.lookup
  induction st.scopes with
  | nil => simp [getVar, Attrs.lookupTable]
  | cons s rest ih =>
    rw [List.flatMap_cons, lookupTable_append, ih, getVar]
    cases Attrs.lookupTable s.vars k <;> simp


theorem updateElement_scopes (ev : Evalr ρ) (st : St ρ) (e : Elem) : (updateElement ev st e).scopes = st.scopes := by
  unfold updateElement; split <;> rfl

theorem groupFinish_scopes (ev : Evalr ρ) (st : St ρ) e r : (groupFinish ev st e r).1.scopes = st.scopes := by
  unfold groupFinish
  dsimp only
  have h : (if r.2.isSome then setPrev (updateElement ev st { e with contentBBox := r.2 }) { e with contentBBox := r.2 }
      else updateElement ev st { e with contentBBox := r.2 }).scopes = st.scopes := by
    split <;> simp [setPrev, updateElement_scopes]
  split
  · exact h
  · split <;> exact h

theorem seq_scopes {α β : Type} (x : St ρ × Except CErr α) (f : St ρ → α → St ρ × Except CErr β) (S : List Scope)
    (hx : x.1.scopes = S) (hf : ∀ v, (f x.1 v).1.scopes = S) : (seq x f).1.scopes = S := by
  unfold seq
  split
  · exact hx
  · exact hf _

/-- **values set inside a group are discarded when it closes**: after `<g>…</g>` (or `<symbol>`), on
    success and on failure alike, the whole scope stack — hence every variable binding — is exactly
    what it was before the group -/
theorem group_restores_bindings (ev : Evalr ρ) (fuel : Nat) (st : St ρ) (e : Elem) (kids : Option Nodes)
    (h : st.scopes ≠ []) :
    (genGroup ev (fuel + 1) st e kids).1.scopes = st.scopes ∧
    ∀ k, (genGroup ev (fuel + 1) st e kids).1.lookup k = st.lookup k := by
  have key : (genGroup ev (fuel + 1) st e kids).1.scopes = st.scopes := by
    rw [genGroup]
    have hw := withRng_scopes st (evalAttributes ev st e)
    have hne : (withRng st (evalAttributes ev st e)).1.scopes ≠ [] := by rw [hw]; exact h
    apply seq_scopes _ _ _ hw
    intro ne
    have hp : ((withRng st (evalAttributes ev st e)).1.pushElement e).scopes ≠ [] := by simp [St.pushElement]
    have hbody : Inv ((withRng st (evalAttributes ev st e)).1.pushElement e)
        (match kids with
          | none => (((withRng st (evalAttributes ev st e)).1.pushElement e),
              (Except.ok ([Ev.empty (adapt ne)], none) : Res))
          | some ks =>
            seq (processNodes ev fuel ((withRng st (evalAttributes ev st e)).1.pushElement e) ks) fun st r =>
              (st, .ok ([Ev.start (adapt ne)] ++ r.1 ++ [Ev.end_ ne.name], r.2))).1 := by
      split
      · exact Inv.refl _ hp
      · apply inv_seq _ _ ((allInv ev fuel).processNodes _ _ hp)
        intro h2 r
        exact Inv.refl _ h2
    have hpp := (inv_push_pop e hbody hne).2
    have hpop := hpp.trans hw
    apply seq_scopes (popAfter _) _ _ hpop
    intro r
    rw [groupFinish_scopes]
    exact hpop
  exact ⟨key, fun k => by simp [St.lookup, key]⟩

/-- **all attributes of one `<var>` are assigned simultaneously**: every right-hand side is evaluated
    with the bindings in force before the element (`st.lookup`), so `<var a="$b" b="$a"/>` swaps -/
theorem var_parallel_assignment (ev : Evalr ρ) (st : St ρ) (a b va vb wa wb : Str) (r1 r2 : ρ)
    (ha : a ≠ ['_'] ∧ a ≠ cs!"__") (hb : b ≠ ['_'] ∧ b ≠ cs!"__")
    (h1 : ev.evalAttr st.geo st.env st.rng va = .ok (wa, r1))
    (h2 : ev.evalAttr st.geo st.env r1 vb = .ok (wb, r2))
    (hla : (String.ofList wa).utf8ByteSize ≤ st.cfg.varLimit)
    (hlb : (String.ofList wb).utf8ByteSize ≤ st.cfg.varLimit) :
    (genVar ev st { name := cs!"var", attrs := [(a, va), (b, vb)] }).1 =
      (({ st with rng := r2 } : St ρ).setVar a wa).setVar b wb := by
  have a1 : (a == ['_']) = false := by simpa using ha.1
  have a2 : (a == cs!"__") = false := by simpa using ha.2
  have b1 : (b == ['_']) = false := by simpa using hb.1
  have b2 : (b == cs!"__") = false := by simpa using hb.2
  have la : ¬ (String.ofList wa).utf8ByteSize > st.cfg.varLimit := by omega
  have lb : ¬ (String.ofList wb).utf8ByteSize > st.cfg.varLimit := by omega
  simp [genVar, List.foldlM, a1, a2, b1, b2, h1, h2, la, lb, pure, Except.pure, bind, Except.bind]

/-- `<var>` itself only touches the innermost scope -/
theorem var_touches_innermost_only (ev : Evalr ρ) (st : St ρ) (e : Elem) (h : st.scopes ≠ []) :
    (genVar ev st e).1.scopes.tail = st.scopes.tail :=
  (inv_genVar ev st e h).2.1

/-- non-vacuity: a concrete nested state in which the hypotheses hold and shadowing is observable -/
example :
    let st : St Nat := { rng := 0, scopes := [{ vars := [(cs!"fill", cs!"blue")] }] }
    let g : Elem := { name := ['g'], attrs := [(cs!"fill", cs!"red")] }
    st.scopes ≠ [] ∧ (st.pushElement g).lookup cs!"fill" = some cs!"red" ∧
    ((st.pushElement g).popElement).lookup cs!"fill" = some cs!"blue" := by
  decide +kernel

end Svgdx.Props.C15

#print axioms Svgdx.Props.C15.lookup_innermost
#print axioms Svgdx.Props.C15.element_attrs_shadow
#print axioms Svgdx.Props.C15.scopes_restored
#print axioms Svgdx.Props.C15.group_restores_bindings
#print axioms Svgdx.Props.C15.var_parallel_assignment
#print axioms Svgdx.Props.C15.var_touches_innermost_only
#print axioms Svgdx.Props.C15.env_denotes_lookup
