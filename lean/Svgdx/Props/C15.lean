/-
  C15 — Variable scoping is lexical and unaffected by evaluation order.

  About the control-skeleton model `Svgdx.Ctl` (tied to context.rs / transform.rs / reuse.rs by the probe
  and document correspondence streams), parametric in the expression evaluator.

  Element defaults (`<defaults>`, `Svgdx.Ctl.Defaults`) are scoped like variables - they live in the same
  scope stack: `defaults_restored`, `defaults_never_override`, `defaults_innermost_wins`,
  `defaults_renders_nothing`, and a closed instance checked against the text svgdx writes.
-/
import Svgdx.Proofs.CtlInv
import Svgdx.Proofs.DefaultsApply
import Svgdx.Ctl.SimpleEval
import Svgdx.Xml.Write

namespace Svgdx.Props.C15
open Svgdx Ctl

variable {ρ : Type}

/-- **innermost definition wins**: lookup scans the scope stack from the innermost scope outwards -/
theorem lookup_innermost (s : Scope) (rest : List Scope) (name : Str) :
    getVar (s :: rest) name = (Attrs.lookupTable s.vars name).or (getVar rest name) := by
  cases h : Attrs.lookupTable s.vars name <;> simp [getVar, h]

/-- the attributes of an enclosing `<g>` / `<reuse>` shadow outer values … -/
theorem element_attrs_shadow (st : St ρ) (e : Elem) (k : Str) :
    (st.pushElement e).lookup k = (e.attrs.get k).or (st.lookup k) := by
  cases h : Attrs.lookupTable e.attrs k <;> simp [St.pushElement, St.lookup, getVar, Attrs.get, h]

/-- … and every enclosing scope, the element stack, the depth counter and the in-specs flag are exactly
    as before once ANY element has been processed — whatever the outcome, in particular when the
    element failed because of a forward reference and will be re-evaluated later -/
theorem scopes_restored (ev : Evalr ρ) (fuel : Nat) (st : St ρ) (e : Elem) (kids : Option Nodes)
    (h : st.scopes ≠ []) :
    let st' := (genElem ev fuel st e kids).1
    st'.scopes.tail = st.scopes.tail ∧ st'.scopes.length = st.scopes.length ∧
    st'.elemStack = st.elemStack ∧ st'.inSpecs = st.inSpecs := by
  have hi := (allInv ev fuel).genElem st e kids h
  refine ⟨hi.2.1, ?_, hi.2.2.2.1, hi.2.2.2.2⟩
  have h1 := hi.2.1
  have h2 := hi.2.2.1
  cases hs : (genElem ev fuel st e kids).1.scopes with
  | nil => exact absurd hs h2
  | cons a as =>
    cases ht : st.scopes with
    | nil => exact absurd ht h
    | cons b bs =>
      rw [hs, ht] at h1
      simp only [List.tail_cons] at h1
      simp [h1]

theorem withRng_scopes {α : Type} (st : St ρ) (r : Except Err (α × ρ)) : (withRng st r).1.scopes = st.scopes := by
  unfold withRng; split <;> rfl

theorem lookupTable_append {β : Type} (a b : List (Str × β)) (k : Str) :
    Attrs.lookupTable (a ++ b) k = (Attrs.lookupTable a k).or (Attrs.lookupTable b k) := by
  induction a with
  | nil => simp [Attrs.lookupTable]
  | cons p rest ih =>
    obtain ⟨k', v⟩ := p
    simp only [List.cons_append, Attrs.lookupTable]
    split <;> simp [ih]

/-- the flattened environment handed to the expression evaluator denotes exactly `get_var`:
    innermost scope first -/
theorem env_denotes_lookup (st : St ρ) (k : Str) : Attrs.lookupTable st.env k = st.lookup k := by
  unfold St.env St.lookup
  induction st.scopes with
  | nil => simp [getVar, Attrs.lookupTable]
  | cons s rest ih =>
    rw [List.flatMap_cons, lookupTable_append, ih, getVar]
    cases Attrs.lookupTable s.vars k <;> simp


theorem updateElement_scopes (ev : Evalr ρ) (st : St ρ) (e : Elem) : (updateElement ev st e).scopes = st.scopes := by
  unfold updateElement; split <;> rfl

theorem groupFinish_scopes (ev : Evalr ρ) (st : St ρ) e r : (groupFinish ev st e r).1.scopes = st.scopes := by
  unfold groupFinish
  dsimp only
  have h : (if r.2.isSome then setPrev (updateElement ev st { e with contentBBox := r.2 }) { e with contentBBox := r.2 }
      else updateElement ev st { e with contentBBox := r.2 }).scopes = st.scopes := by
    split <;> simp [setPrev, updateElement_scopes]
  split
  · exact h
  · split <;> exact h

theorem seq_scopes {α β : Type} (x : St ρ × Except CErr α) (f : St ρ → α → St ρ × Except CErr β) (S : List Scope)
    (hx : x.1.scopes = S) (hf : ∀ v, (f x.1 v).1.scopes = S) : (seq x f).1.scopes = S := by
  unfold seq
  split
  · exact hx
  · exact hf _

/-- **values set inside a group are discarded when it closes**: after `<g>…</g>` (or `<symbol>`), on
    success and on failure alike, the whole scope stack — hence every variable binding — is exactly
    what it was before the group -/
theorem group_restores_bindings (ev : Evalr ρ) (fuel : Nat) (st : St ρ) (e : Elem) (kids : Option Nodes)
    (h : st.scopes ≠ []) :
    (genGroup ev (fuel + 1) st e kids).1.scopes = st.scopes ∧
    ∀ k, (genGroup ev (fuel + 1) st e kids).1.lookup k = st.lookup k := by
  have key : (genGroup ev (fuel + 1) st e kids).1.scopes = st.scopes := by
    rw [genGroup]
    have hw := withRng_scopes st (evalAttributes ev st e)
    have hne : (withRng st (evalAttributes ev st e)).1.scopes ≠ [] := by rw [hw]; exact h
    apply seq_scopes _ _ _ hw
    intro ne
    have hp : ((withRng st (evalAttributes ev st e)).1.pushElement e).scopes ≠ [] := by simp [St.pushElement]
    have hbody : Inv ((withRng st (evalAttributes ev st e)).1.pushElement e)
        (match kids with
          | none => (((withRng st (evalAttributes ev st e)).1.pushElement e),
              (Except.ok ([Ev.empty (adapt ne)], none) : Res))
          | some ks =>
            seq (processNodes ev fuel ((withRng st (evalAttributes ev st e)).1.pushElement e) ks) fun st r =>
              (st, .ok ([Ev.start (adapt ne)] ++ r.1 ++ [Ev.end_ ne.name], r.2))).1 := by
      split
      · exact Inv.refl _ hp
      · apply inv_seq _ _ ((allInv ev fuel).processNodes _ _ hp)
        intro h2 r
        exact Inv.refl _ h2
    have hpp := (inv_push_pop e hbody hne).2
    have hpop := hpp.trans hw
    apply seq_scopes (popAfter _) _ _ hpop
    intro r
    rw [groupFinish_scopes]
    exact hpop
  exact ⟨key, fun k => by simp [St.lookup, key]⟩

/-- **all attributes of one `<var>` are assigned simultaneously**: every right-hand side is evaluated
    with the bindings in force before the element (`st.lookup`), so `<var a="$b" b="$a"/>` swaps -/
theorem var_parallel_assignment (ev : Evalr ρ) (st : St ρ) (a b va vb wa wb : Str) (r1 r2 : ρ)
    (ha : a ≠ ['_'] ∧ a ≠ cs!"__") (hb : b ≠ ['_'] ∧ b ≠ cs!"__")
    (h1 : ev.evalAttr st.geo st.env st.rng va = .ok (wa, r1))
    (h2 : ev.evalAttr st.geo st.env r1 vb = .ok (wb, r2))
    (hla : (String.ofList wa).utf8ByteSize ≤ st.cfg.varLimit)
    (hlb : (String.ofList wb).utf8ByteSize ≤ st.cfg.varLimit) :
    (genVar ev st { name := cs!"var", attrs := [(a, va), (b, vb)] }).1 =
      (({ st with rng := r2 } : St ρ).setVar a wa).setVar b wb := by
  have a1 : (a == ['_']) = false := by simpa using ha.1
  have a2 : (a == cs!"__") = false := by simpa using ha.2
  have b1 : (b == ['_']) = false := by simpa using hb.1
  have b2 : (b == cs!"__") = false := by simpa using hb.2
  have la : ¬ (String.ofList wa).utf8ByteSize > st.cfg.varLimit := by omega
  have lb : ¬ (String.ofList wb).utf8ByteSize > st.cfg.varLimit := by omega
  simp [genVar, List.foldlM, a1, a2, b1, b2, h1, h2, la, lb, pure, Except.pure, bind, Except.bind]

/-- `<var>` itself only touches the innermost scope -/
theorem var_touches_innermost_only (ev : Evalr ρ) (st : St ρ) (e : Elem) (h : st.scopes ≠ []) :
    (genVar ev st e).1.scopes.tail = st.scopes.tail :=
  (inv_genVar ev st e h).2.1


/-! ### element defaults are scoped like variables -/

theorem clipPost_scopes (ev : Evalr ρ) (e : Elem) (x : St ρ × Res) : (clipPost ev e x).1.scopes = x.1.scopes := by
  unfold clipPost
  split
  · split
    · split
      · rfl
      · split
        · split
          · rfl
          · exact updateElement_scopes ev _ _
          · rfl
        · rfl
    · rfl
  · rfl

theorem genGroup_scopes (ev : Evalr ρ) (fuel : Nat) (st : St ρ) (e : Elem) (kids : Option Nodes) (h : st.scopes ≠ []) :
    (genGroup ev fuel st e kids).1.scopes = st.scopes := by
  cases fuel with
  | zero => rfl
  | succ f => exact (group_restores_bindings ev f st e kids h).1

/-- `<reuse>`: the scope pushed for the reuse element is popped again, whatever the outcome -/
theorem genReuse_scopes (ev : Evalr ρ) (fuel : Nat) (st : St ρ) (e : Elem) (h : st.scopes ≠ []) :
    (genReuse ev fuel st e).1.scopes = st.scopes := by
  cases fuel with
  | zero => rfl
  | succ f =>
    rw [genReuse]
    have hw := withRng_scopes st (evalAttributes ev st e)
    have h1 : (withRng st (evalAttributes ev st e)).1.scopes ≠ [] := by rw [hw]; exact h
    apply seq_scopes _ _ _ hw
    intro re
    have hp : ((withRng st (evalAttributes ev st e)).1.pushElement re).scopes ≠ [] := by simp [St.pushElement]
    have hbody : Inv ((withRng st (evalAttributes ev st e)).1.pushElement re)
        (seq (reusePrepare ev ((withRng st (evalAttributes ev st e)).1.pushElement re) re) fun st1 ik =>
          match ik.2 with
          | some ks => processNodes ev f st1 (Nodes.cons (.elem ik.1 (some ks) none) .nil)
          | none => genElem ev f st1 ik.1 none).1 := by
      apply inv_seq _ _ (inv_reusePrepare ev _ re hp)
      intro h2 ik
      split
      · exact (allInv ev f).processNodes _ _ h2
      · exact (allInv ev f).genElem _ _ _ h2
    exact ((inv_push_pop re hbody h1).2).trans hw

theorem dispatch_group (ev : Evalr ρ) (f : Nat) (st : St ρ) (e : Elem) (kids : Option Nodes)
    (h : e.name = ['g'] ∨ e.name = cs!"symbol") : dispatch ev (f + 1) st e kids = genGroup ev f st e kids := by
  unfold dispatch
  rcases h with h | h <;> simp only [h] <;> rfl

theorem dispatch_reuse (ev : Evalr ρ) (f : Nat) (st : St ρ) (e : Elem) (kids : Option Nodes)
    (h : e.name = cs!"reuse") : dispatch ev (f + 1) st e kids = genReuse ev f st e := by
  unfold dispatch
  simp only [h]
  rfl

/-- after a `<g>` / `<symbol>` / `<reuse>` the whole scope stack is what it was -/
theorem scoped_element_restores_scopes (ev : Evalr ρ) (fuel : Nat) (st : St ρ) (e : Elem) (kids : Option Nodes)
    (h : st.scopes ≠ []) (hn : e.name = ['g'] ∨ e.name = cs!"symbol" ∨ e.name = cs!"reuse") :
    (genElem ev fuel st e kids).1.scopes = st.scopes := by
  cases fuel with
  | zero => rfl
  | succ f =>
    rw [genElem]
    split
    · rfl
    · rw [clipPost_scopes]
      show (dispatch ev f { st with depth := st.depth + 1 } e kids).1.scopes = st.scopes
      cases f with
      | zero => rfl
      | succ f =>
        rcases hn with hn | hn | hn
        · rw [dispatch_group ev f _ e kids (Or.inl hn)]; exact genGroup_scopes ev f _ e kids h
        · rw [dispatch_group ev f _ e kids (Or.inr hn)]; exact genGroup_scopes ev f _ e kids h
        · rw [dispatch_reuse ev f _ e kids hn]; exact genReuse_scopes ev f _ e h

/-- **defaults set inside a group (or while a `<reuse>` is instantiated) are discarded when it closes**: after
    `<g>…</g>`, `<symbol>` or `<reuse>`, on success and on failure alike, the list of defaults in force is the one
    before the element, so every later element is defaulted as if the group had not been there -/
theorem defaults_restored (ev : Evalr ρ) (fuel : Nat) (st : St ρ) (e : Elem) (kids : Option Nodes)
    (h : st.scopes ≠ []) (hn : e.name = ['g'] ∨ e.name = cs!"symbol" ∨ e.name = cs!"reuse") :
    defaultsInForce (genElem ev fuel st e kids).1.scopes = defaultsInForce st.scopes ∧
    ∀ x, applyDefaults (genElem ev fuel st e kids).1 x = applyDefaults st x := by
  have := scoped_element_restores_scopes ev fuel st e kids h hn
  exact ⟨by rw [this], fun x => by simp only [applyDefaults, this]⟩

/-- … and for ANY element the defaults of every enclosing scope are untouched (only the innermost scope can gain
    defaults: `<defaults>` stores into it, as `<var>` assigns into it) -/
theorem outer_defaults_untouched (ev : Evalr ρ) (fuel : Nat) (st : St ρ) (e : Elem) (kids : Option Nodes)
    (h : st.scopes ≠ []) :
    (genElem ev fuel st e kids).1.scopes.tail.map (·.defaults) = st.scopes.tail.map (·.defaults) := by
  rw [(scopes_restored ev fuel st e kids h).1]

/-- **an attribute the element already has is kept** (for every attribute but `style`, `text-style`, `transform`,
    which are joined with the defaults): whatever defaults are in force -/
theorem defaults_never_override (st : St ρ) (e : Elem) (k : Str) (hn : Attrs.NodupKeys e.attrs)
    (hk : k ∉ augKeys) (h : e.hasAttr k = true) : (applyDefaults st e).getAttr k = e.getAttr k := by
  unfold applyDefaults
  rw [get_applyDefaultList _ e hn k hk]
  simp only [Elem.hasAttr, Attrs.contains] at h
  simp only [Elem.getAttr]
  cases hg : Attrs.get e.attrs k with
  | none => rw [hg] at h; cases h
  | some v => rfl

/-- … and an attribute the element lacks gets the accumulated default, if there is one -/
theorem defaults_fill_missing (st : St ρ) (e : Elem) (k : Str) (hn : Attrs.NodupKeys e.attrs)
    (hk : k ∉ augKeys) (h : e.getAttr k = none) :
    (applyDefaults st e).getAttr k = Attrs.get (collectDefaults (defaultsInForce st.scopes) e).attrs k := by
  unfold applyDefaults
  rw [get_applyDefaultList _ e hn k hk, h]
  rfl

theorem applyOne_of_match (el : Elem) (acc : DefAcc) (d : ElementMatch × Elem) (hd : acc.done = false)
    (hm : d.1.matchesElem el = true) :
    (applyOne el acc d).attrs =
      (if d.1.isInit then (strippedDefault d.2).attrs else attrsUpdate acc.attrs (strippedDefault d.2).attrs) ∧
    (applyOne el acc d).done = d.1.isFinal := by
  unfold applyOne
  simp only [hd, hm, Bool.not_true, Bool.or_self, Bool.false_eq_true, if_false]
  constructor <;> first | rfl | trivial

theorem attrsUpdate_nodup (a b : Attrs) (h : Attrs.NodupKeys a) : Attrs.NodupKeys (attrsUpdate a b) := by
  unfold attrsUpdate
  induction b generalizing a with
  | nil => exact h
  | cons x xs ih => rw [List.foldl_cons]; exact ih _ (Attrs.insert_nodup h _ _)

/-- **the more local default wins**: two defaults that both match the element, one stored in an outer scope and one
    in the scope inside it, both giving attribute `k` - the element (which has no `k` of its own) gets the inner
    value. (Unless the outer one is `final`: that ends the walk before the inner scope is reached.) -/
theorem defaults_innermost_wins (st : St ρ) (e : Elem) (k vi : Str) (inner outer : Scope) (mo mi : ElementMatch)
    (dO dI : Elem) (hs : st.scopes = [inner, outer]) (hO : outer.defaults = [(mo, dO)]) (hI : inner.defaults = [(mi, dI)])
    (hmo : mo.matchesElem e = true) (hmi : mi.matchesElem e = true) (hfin : mo.isFinal = false)
    (hne : Attrs.NodupKeys e.attrs) (hnO : Attrs.NodupKeys dO.attrs) (hnI : Attrs.NodupKeys dI.attrs)
    (hk : k ∉ augKeys) (he : e.getAttr k = none) (hi : dI.getAttr k = some vi) :
    (applyDefaults st e).getAttr k = some vi := by
  rw [defaults_fill_missing st e k hne hk he]
  have hforce : defaultsInForce st.scopes = [(mo, dO), (mi, dI)] := by
    simp [defaultsInForce, hs, hO, hI]
  rw [hforce]
  simp only [collectDefaults, List.foldl_cons, List.foldl_nil]
  obtain ⟨ha1, hd1⟩ := applyOne_of_match e {} (mo, dO) rfl hmo
  have hd1' : (applyOne e {} (mo, dO)).done = false := by rw [hd1]; exact hfin
  obtain ⟨ha2, _⟩ := applyOne_of_match e (applyOne e {} (mo, dO)) (mi, dI) hd1' hmi
  rw [ha2]
  have hsI : Attrs.get (strippedDefault dI).attrs k = some vi := by
    rw [strippedDefault_get dI k hk]; exact hi
  split
  · exact hsI
  · have hn1 : Attrs.NodupKeys (applyOne e {} (mo, dO)).attrs := by
      rw [ha1]
      split
      · exact strippedDefault_nodup hnO
      · exact attrsUpdate_nodup _ _ (by simp [Attrs.NodupKeys, Attrs.keys])
    unfold attrsUpdate
    rw [Attrs.get_foldl_insert _ _ hn1 (strippedDefault_nodup hnI), hsI]
    rfl

/-- **`<defaults>` renders nothing**: no events, no box; all it does is store the elements inside it, at every
    nesting level and in document order, into the innermost scope -/
theorem defaults_renders_nothing (ev : Evalr ρ) (fuel : Nat) (st : St ρ) (e : Elem) (kids : Option Nodes)
    (hn : e.name = cs!"defaults") :
    dispatch ev (fuel + 1) st e kids =
      ((match kids with
        | some ks => (subElemsNodes ks).foldl St.setElementDefault st
        | none => st), .ok ([], none)) ∧
    ∀ evs bb, (genElem ev fuel st e kids).2 = .ok (evs, bb) → evs = [] ∧ bb = none := by
  have hd : ∀ (f : Nat) (s : St ρ), dispatch ev (f + 1) s e kids = genDefaults s kids := by
    intro f s
    unfold dispatch
    simp only [hn]
    rfl
  refine ⟨hd fuel st, ?_⟩
  intro evs bb h
  cases fuel with
  | zero => simp [genElem] at h
  | succ f =>
    rw [genElem] at h
    split at h
    · cases h
    · cases f with
      | zero => simp [dispatch, clipPost] at h
      | succ f =>
        simp only [hd, genDefaults, clipPost, Except.ok.injEq, Prod.mk.injEq] at h
        exact ⟨h.1.symm, h.2.symm⟩

/-! ### closed instance: the element-reference example, against the text svgdx writes

  `<defaults><rect fill="red" class="a"/><_ match=".big" rx="2"/></defaults><rect wh="2"/><rect wh="2" class="big" fill="blue"/>` -/

namespace DefaultsExample

def doc : Nodes := Nodes.ofList [
  .elem (Elem.new cs!"defaults" []) (some (Nodes.ofList [
    .elem (Elem.new cs!"rect" [(cs!"fill", cs!"red"), (cs!"class", ['a'])]) none none,
    .elem (Elem.new ['_'] [(cs!"match", cs!".big"), (cs!"rx", ['2'])]) none none])) none,
  .elem (Elem.new cs!"rect" [(cs!"wh", ['2'])]) none none,
  .elem (Elem.new cs!"rect" [(cs!"wh", ['2']), (cs!"class", cs!"big"), (cs!"fill", cs!"blue")]) none none]

def st0 : St Nat := { rng := 0, scopes := [{}] }

def out : Str := match (processNodes simpleEvalr 12 st0 doc).2 with
  | .ok (evs, _) => Xml.write evs
  | .error _ => cs!"error"

/-- the first rectangle gets `fill` and the class; the second keeps its own `fill`, gets `rx` (it has class `big`)
    and the class `a` after its own - byte for byte what `svgdx --no-auto-styles` writes for this input -/
theorem renders :
    out = cs!"<rect width=\"2\" height=\"2\" fill=\"red\" class=\"a\"/><rect width=\"2\" height=\"2\" rx=\"2\" fill=\"blue\" class=\"big a\"/>" := by
  decide +kernel

/-- two defaults are stored in the one scope, and nowhere else -/
theorem stored : (processNodes simpleEvalr 12 st0 doc).1.scopes.map (·.defaults.length) = [2] := by
  decide +kernel

def st1 : St Nat := (processNodes simpleEvalr 12 st0 doc).1
def big : Elem := Elem.new cs!"rect" [(cs!"wh", ['2']), (cs!"class", cs!"big"), (cs!"fill", cs!"blue")]

/-- the hypotheses of `defaults_never_override` hold of the second rectangle, and its `fill` is indeed kept -/
example :
    Attrs.NodupKeys big.attrs ∧ cs!"fill" ∉ augKeys ∧ big.hasAttr cs!"fill" = true ∧
    (applyDefaults st1 big).getAttr cs!"fill" = some cs!"blue" ∧ (applyDefaults st1 big).getAttr cs!"rx" = some ['2'] := by
  unfold Attrs.NodupKeys
  decide +kernel

/-- the hypotheses of `defaults_innermost_wins` are satisfiable: outer `<rect fill="red"/>`, inner `<rect fill="blue"/>` -/
def dO : ElementMatch × Elem := defaultEntry (Elem.new cs!"rect" [(cs!"fill", cs!"red")])
def dI : ElementMatch × Elem := defaultEntry (Elem.new cs!"rect" [(cs!"fill", cs!"blue")])
def st2 : St Nat := { rng := 0, scopes := [{ defaults := [dI] }, { defaults := [dO] }] }
def plain : Elem := Elem.new cs!"rect" [(cs!"wh", ['2'])]

example :
    dO.1.matchesElem plain = true ∧ dI.1.matchesElem plain = true ∧ dO.1.isFinal = false ∧
    Attrs.NodupKeys plain.attrs ∧ Attrs.NodupKeys dO.2.attrs ∧ Attrs.NodupKeys dI.2.attrs ∧
    plain.getAttr cs!"fill" = none ∧ dI.2.getAttr cs!"fill" = some cs!"blue" ∧
    (applyDefaults st2 plain).getAttr cs!"fill" = some cs!"blue" := by
  unfold Attrs.NodupKeys
  decide +kernel

/-! #### two facts about svgdx the model reproduces (both confirmed on the binary), kernel-checked

  (1) defaults are NOT lexical with respect to the retry loop: an element written BEFORE the `<defaults>` element
      that has to wait for a forward reference is attempted again after the `<defaults>` has been processed, and
      then gets them: `<rect xy="#a|h" wh="2"/><defaults><rect fill="red"/></defaults><rect id="a" wh="3"/>`
      writes `fill="red"` on the first rectangle too.
  (2) `apply_defaults` does not tell svgdx's own elements from SVG elements: a default for `_` lands on `<var/>`
      (and `<config/>`, `<reuse/>`, …) - `<defaults><_ fill="red"/></defaults><var a="1"/>` also sets `$fill`. -/

def docOrder : Nodes := Nodes.ofList [
  .elem (Elem.new cs!"rect" [(cs!"xy", cs!"#a|h"), (cs!"wh", ['2'])]) none none,
  .elem (Elem.new cs!"defaults" []) (some (Nodes.ofList [
    .elem (Elem.new cs!"rect" [(cs!"fill", cs!"red")]) none none])) none,
  .elem (Elem.new cs!"rect" [(cs!"id", ['a']), (cs!"wh", ['3'])]) none none]

theorem defaults_reach_backwards_on_retry :
    (match (processNodes simpleEvalr 12 st0 docOrder).2 with
      | .ok (evs, _) => Xml.write evs
      | .error _ => cs!"error") =
    cs!"<rect x=\"3\" y=\"0.5\" width=\"2\" height=\"2\" fill=\"red\"/><rect id=\"a\" width=\"3\" height=\"3\" fill=\"red\"/>" := by
  decide +kernel

def docVar : Nodes := Nodes.ofList [
  .elem (Elem.new cs!"defaults" []) (some (Nodes.ofList [
    .elem (Elem.new ['_'] [(cs!"fill", cs!"red")]) none none])) none,
  .elem (Elem.new cs!"var" [(['a'], ['1'])]) none none]

theorem defaults_apply_to_var_elements :
    (processNodes simpleEvalr 12 st0 docVar).1.lookup cs!"fill" = some cs!"red" ∧
    (processNodes simpleEvalr 12 st0 docVar).1.lookup ['a'] = some ['1'] := by
  decide +kernel

end DefaultsExample

/-- non-vacuity: a concrete nested state in which the hypotheses hold and shadowing is observable -/
example :
    let st : St Nat := { rng := 0, scopes := [{ vars := [(cs!"fill", cs!"blue")] }] }
    let g : Elem := { name := ['g'], attrs := [(cs!"fill", cs!"red")] }
    st.scopes ≠ [] ∧ (st.pushElement g).lookup cs!"fill" = some cs!"red" ∧
    ((st.pushElement g).popElement).lookup cs!"fill" = some cs!"blue" := by
  decide +kernel

end Svgdx.Props.C15

#print axioms Svgdx.Props.C15.lookup_innermost
#print axioms Svgdx.Props.C15.element_attrs_shadow
#print axioms Svgdx.Props.C15.scopes_restored
#print axioms Svgdx.Props.C15.group_restores_bindings
#print axioms Svgdx.Props.C15.var_parallel_assignment
#print axioms Svgdx.Props.C15.var_touches_innermost_only
#print axioms Svgdx.Props.C15.env_denotes_lookup
#print axioms Svgdx.Props.C15.defaults_restored
#print axioms Svgdx.Props.C15.outer_defaults_untouched
#print axioms Svgdx.Props.C15.defaults_never_override
#print axioms Svgdx.Props.C15.defaults_fill_missing
#print axioms Svgdx.Props.C15.defaults_innermost_wins
#print axioms Svgdx.Props.C15.defaults_renders_nothing
#print axioms Svgdx.Props.C15.DefaultsExample.renders
#print axioms Svgdx.Props.C15.DefaultsExample.stored
#print axioms Svgdx.Props.C15.DefaultsExample.defaults_reach_backwards_on_retry
#print axioms Svgdx.Props.C15.DefaultsExample.defaults_apply_to_var_elements
