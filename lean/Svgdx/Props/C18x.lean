/-
  C18, extension (Svgdx/Proofs/ReuseInline.lean): what a `<reuse>` IS, for every outcome.
   * `reuse_closed_form` / `reuse_equals_instance_in_scope`: `genReuse` is exactly - evaluate the reuse
     element's attributes, prepare the dressed copy, process that ONE instance node in the state where
     the reuse element's attributes are the innermost variable scope, pop that scope; events and box of
     the reuse are those of the instance (`instance_variable_lookup`: the reuse element's attributes
     shadow outer variables, nothing else is added);
   * `reuse_tag_among_siblings`: the same among siblings, under the first-try premise of C16;
   * `group_instance_is_a_group`: the instance of a group template renders `<g dressed attributes>`,
     the template's children, `</g>` - what a group standing in that scope renders;
   * `reuse_frame`, `reuse_changes_at_most`: the state after a reuse differs from the state before in at
     most geo, originals (which only grow: `templates_only_grow`, `template_untouched`), cfg, rng,
     outside, idlePasses and gen; scopes, element stack, depth and in-specs flag are restored;
   * `instances_independent`: a second instance of the same template gives the result it would give
     without the first, provided its evaluation looks at nothing the first may have changed.
  Not proved (stays with the inlining oracle): the equation with a hand-written copy in which the values
  are SUBSTITUTED - it needs a simulation between runs with different scope stacks.
  Finding recorded in DESIGN 12.13: a template containing `<config>` changes the limits at the place of
  use (`ReuseExample.reuse_can_change_config`), so `cfg` is not in the frame.
-/
import Svgdx.Proofs.ReuseInline

#print axioms Svgdx.Props.C18x.reuse_closed_form
#print axioms Svgdx.Props.C18x.reuse_equals_instance_in_scope
#print axioms Svgdx.Props.C18x.instance_variable_lookup
#print axioms Svgdx.Props.C18x.reuse_tag_among_siblings
#print axioms Svgdx.Props.C18x.group_instance_is_a_group
#print axioms Svgdx.Props.C18x.templates_only_grow
#print axioms Svgdx.Props.C18x.reuse_frame
#print axioms Svgdx.Props.C18x.reuse_changes_at_most
#print axioms Svgdx.Props.C18x.template_untouched
#print axioms Svgdx.Props.C18x.instances_independent
#print axioms Svgdx.Ctl.ReuseExample.doc_events
#print axioms Svgdx.Ctl.ReuseExample.r2_after_r1
