/-
  C10, extension (Svgdx/Proofs/SchedLoop.lean, SchedRefine.lean, SchedTame.lean): the CONCRETE retry loop of
  the control skeleton refines the abstract scheduler whose order independence is proved in Props/C10.lean.
   * `Svgdx.SchedLoop.processNodes_sim` (fully proved, generic): if every tag of a sibling list behaves
     like its abstract item (`LeafSpec`: success registers exactly (id, value) and moves the change
     counter, failure registers nothing and is neither a limit nor a fuel error), then `processNodes`
     succeeds iff `Sched.run` does, with the same element table, and otherwise ends in MultiError. The
     concrete loop's extra stopping rules are accounted for: the futile-retry test fires only when the
     abstract loop would make one more pass without progress, the idle-pass budget is never reached.
   * the three theorems below instantiate it for documents satisfying the DECIDABLE condition `plainB`
     (leaf elements rect / circle / ellipse / box with unique attribute keys, no classes, a literal id, no
     `clip-path` / `text` / `surround` / `inside` / `start` attribute, no `^` in any attribute value;
     pairwise distinct ids), under the identity evaluator. From `plainB` alone are derived
     (`Svgdx.SchedRefine.tame_of_syn_res`, using the frame theorems of Proofs/PassThrough.lean): dispatch to
     `genOther`, the monotonicity hypothesis of the scheduler, and for every result of the pipeline - the id
     is kept, the element is not a use / reuse and has no clip-path, its box is `e'.bbox` in EVERY context
     (`bb_shape`), and its shape events are produced.
     They are still named `_partial`: the residue `TameRes` (three SEMANTIC facts about the geometry pipeline
     of one element) is assumed, not derived from `plainB`:
       `prevFree`   - the outcome does not depend on the previous element (true because no attribute value
                      contains `^`; the proof needs the invariant "no `^` in any attribute value" carried
                      through every stage of `resolve_position` - not done);
       `noDepthErr` - the geometry pipeline does not raise the expression evaluator's depth error (no stage
                      produces it; the stage-by-stage proof is started in SchedTame.lean: `NDe`, `num_nd`,
                      `splitRelspec_nd` - not finished);
       `boxOk`      - a resolved element has a computable box (`e'.bbox` is not an error). This one is NOT
                      a consequence of `plainB`: `bbox_raw` fails on a coordinate that is not a number and
                      contains `#`, `$` or `^` (e.g. `x="#5"`, which `extract_elref` does not take for a
                      reference), and `genOther` has by then REGISTERED the element - a failing tag that
                      leaves a registration behind, which the abstract scheduler does not model.
     The closed instances (`decide +kernel`) show the conclusions on concrete documents satisfying `plainB`.
  Events and bounding box are not covered (only success, the element table and the error kind).
-/
import Svgdx.Proofs.SchedTame

namespace Svgdx.Props.C10x
open Svgdx Ctl SchedRefine
variable {ρ : Type}

theorem concrete_refines_abstract_partial {ev : Evalr ρ} (hev : IdEval ev) {ks : Nodes}
    (hp : plainB ks = true) (hres : ∀ n ∈ ks.toList, TameRes (nodeElem n))
    {st : St ρ} (hst : Init st) (fuel : Nat) (hf : 2 * ks.toList.length + 5 < fuel) :
    match Sched.run (items (docIds ks) ks) with
    | some env => (∃ r, (processNodes ev fuel st ks).2 = .ok r) ∧ (processNodes ev fuel st ks).1.geo.elems = env
    | none => ∃ idxs, (processNodes ev fuel st ks).2 = .error (.multi idxs) :=
  concrete_refines_abstract hev (plain_of_plainB hp hres) hst fuel hf

theorem sibling_order_irrelevant_partial {ev : Evalr ρ} (hev : IdEval ev) {ks ks' : Nodes}
    (hp : plainB ks = true) (hres : ∀ n ∈ ks.toList, TameRes (nodeElem n))
    (hperm : ks.toList.Perm ks'.toList) {st st' : St ρ} (hst : Init st)
    (hst' : Init st') (fuel fuel' : Nat) (hf : 2 * ks.toList.length + 5 < fuel)
    (hf' : 2 * ks'.toList.length + 5 < fuel') :
    ((∃ r, (processNodes ev fuel st ks).2 = .ok r) ↔ (∃ r, (processNodes ev fuel' st' ks').2 = .ok r)) ∧
    ((∃ r, (processNodes ev fuel st ks).2 = .ok r) → ∀ i,
      (processNodes ev fuel st ks).1.geo.get (.id i) = (processNodes ev fuel' st' ks').1.geo.get (.id i)) :=
  sibling_order_irrelevant hev (plain_of_plainB hp hres) hperm hst hst' fuel fuel' hf hf'

theorem failure_in_every_order_partial {ev : Evalr ρ} (hev : IdEval ev) {ks : Nodes}
    (hp : plainB ks = true) (hres : ∀ n ∈ ks.toList, TameRes (nodeElem n))
    {st : St ρ} (hst : Init st) (fuel : Nat) (hf : 2 * ks.toList.length + 5 < fuel)
    (hfail : ¬ ∃ r, (processNodes ev fuel st ks).2 = .ok r) :
    (∃ idxs, (processNodes ev fuel st ks).2 = .error (.multi idxs)) ∧
    (∀ (ks' : Nodes) (st' : St ρ) (fuel' : Nat), ks.toList.Perm ks'.toList → Init st' →
      2 * ks'.toList.length + 5 < fuel' → ∃ idxs, (processNodes ev fuel' st' ks').2 = .error (.multi idxs)) ∧
    (∃ n ∈ ks.toList, ∀ env, Sched.Reach (items (docIds ks) ks) env →
      Sched.view env (idOf (nodeElem n)) = none) :=
  failure_in_every_order hev (plain_of_plainB hp hres) hst fuel hf hfail

/-- the decidable hypotheses hold of the example documents and elements -/
example : tameB Example.rA = true ∧ tameB Example.rB = true ∧ tameB Example.rC = true := by decide
example : plainB Example.doc1 = true ∧ plainB Example.doc2 = true := by decide

end Svgdx.Props.C10x

#print axioms Svgdx.SchedLoop.processNodes_sim
#print axioms Svgdx.SchedRefine.itemOfElem_monotone
#print axioms Svgdx.SchedRefine.tame_of_syn_res
#print axioms Svgdx.SchedRefine.plain_of_plainB
#print axioms Svgdx.Props.C10x.concrete_refines_abstract_partial
#print axioms Svgdx.Props.C10x.sibling_order_irrelevant_partial
#print axioms Svgdx.Props.C10x.failure_in_every_order_partial
#print axioms Svgdx.SchedRefine.Example.three_rects_two_orders
#print axioms Svgdx.SchedRefine.Example.abstract_matches_concrete
#print axioms Svgdx.SchedRefine.Example.two_rects_unsatisfiable
