/-
  C10, extension (Svgdx/Proofs/SchedLoop.lean, SchedRefine.lean): the CONCRETE retry loop of the control
  skeleton refines the abstract scheduler whose order independence is proved in Props/C10.lean.
   * `Svgdx.SchedLoop.processNodes_sim` (fully proved, generic): if every tag of a sibling list behaves
     like its abstract item (`LeafSpec`: success registers exactly (id, value) and moves the change
     counter, failure registers nothing and is neither a limit nor a fuel error), then `processNodes`
     succeeds iff `Sched.run` does, with the same element table, and otherwise ends in MultiError. The
     concrete loop's extra stopping rules are accounted for: the futile-retry test fires only when the
     abstract loop would make one more pass without progress, the idle-pass budget is never reached.
   * the three theorems below instantiate it for documents of leaf elements with distinct literal ids
     under the identity evaluator. They are named `_partial`: the per-element side condition `Tame`
     contains three SEMANTIC hypotheses about the geometry pipeline of one element (it does not read the
     previous element, raises no expression-depth error, and a result has a box in every context and
     renders) which are not derived from the element's syntax here; the closed instances (`decide
     +kernel`) show the conclusions on concrete documents: three rects referring to each other come out
     with the same geometry in two orders and agree with the abstract run; with the last one missing
     both orders end in MultiError.
  Events and bounding box are not covered (only success, the element table and the error kind).
-/
import Svgdx.Proofs.SchedRefine

namespace Svgdx.Props.C10x
open Svgdx Ctl SchedRefine
variable {ρ : Type}

theorem concrete_refines_abstract_partial {ev : Evalr ρ} (hev : IdEval ev) {Shape : Elem → Prop} {ks : Nodes}
    (hp : Plain Shape ks) {st : St ρ} (hst : Init st) (fuel : Nat) (hf : 2 * ks.toList.length + 5 < fuel) :
    match Sched.run (items (docIds ks) ks) with
    | some env => (∃ r, (processNodes ev fuel st ks).2 = .ok r) ∧ (processNodes ev fuel st ks).1.geo.elems = env
    | none => ∃ idxs, (processNodes ev fuel st ks).2 = .error (.multi idxs) :=
  concrete_refines_abstract hev hp hst fuel hf

theorem sibling_order_irrelevant_partial {ev : Evalr ρ} (hev : IdEval ev) {Shape : Elem → Prop} {ks ks' : Nodes}
    (hp : Plain Shape ks) (hperm : ks.toList.Perm ks'.toList) {st st' : St ρ} (hst : Init st)
    (hst' : Init st') (fuel fuel' : Nat) (hf : 2 * ks.toList.length + 5 < fuel)
    (hf' : 2 * ks'.toList.length + 5 < fuel') :
    ((∃ r, (processNodes ev fuel st ks).2 = .ok r) ↔ (∃ r, (processNodes ev fuel' st' ks').2 = .ok r)) ∧
    ((∃ r, (processNodes ev fuel st ks).2 = .ok r) → ∀ i,
      (processNodes ev fuel st ks).1.geo.get (.id i) = (processNodes ev fuel' st' ks').1.geo.get (.id i)) :=
  sibling_order_irrelevant hev hp hperm hst hst' fuel fuel' hf hf'

theorem failure_in_every_order_partial {ev : Evalr ρ} (hev : IdEval ev) {Shape : Elem → Prop} {ks : Nodes}
    (hp : Plain Shape ks) {st : St ρ} (hst : Init st) (fuel : Nat) (hf : 2 * ks.toList.length + 5 < fuel)
    (hfail : ¬ ∃ r, (processNodes ev fuel st ks).2 = .ok r) :
    (∃ idxs, (processNodes ev fuel st ks).2 = .error (.multi idxs)) ∧
    (∀ (ks' : Nodes) (st' : St ρ) (fuel' : Nat), ks.toList.Perm ks'.toList → Init st' →
      2 * ks'.toList.length + 5 < fuel' → ∃ idxs, (processNodes ev fuel' st' ks').2 = .error (.multi idxs)) ∧
    (∃ n ∈ ks.toList, ∀ env, Sched.Reach (items (docIds ks) ks) env →
      Sched.view env (idOf (nodeElem n)) = none) :=
  failure_in_every_order hev hp hst fuel hf hfail

end Svgdx.Props.C10x

#print axioms Svgdx.SchedLoop.processNodes_sim
#print axioms Svgdx.SchedRefine.itemOfElem_monotone
#print axioms Svgdx.Props.C10x.concrete_refines_abstract_partial
#print axioms Svgdx.Props.C10x.sibling_order_irrelevant_partial
#print axioms Svgdx.Props.C10x.failure_in_every_order_partial
#print axioms Svgdx.SchedRefine.Example.three_rects_two_orders
#print axioms Svgdx.SchedRefine.Example.abstract_matches_concrete
#print axioms Svgdx.SchedRefine.Example.two_rects_unsatisfiable
