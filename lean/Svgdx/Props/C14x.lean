/-
  C14, extension: the hypothesis of `eval_once_per_element_partial` discharged for numeric results.
  Every character `Num.fstr` produces is a digit, '-' or '.', so a number in output form contains neither
  `$` nor `{{`; evaluating it again returns it unchanged and leaves the random source alone: the second
  attribute pass of the element pipeline does not evaluate an expression occurrence a second time.
  (Proofs in Svgdx/Proofs/SmallGaps.lean, which imports Props/C14.lean - hence this separate file.)
-/
import Svgdx.Proofs.SmallGaps

#print axioms Svgdx.Props.C14x.eval_once_for_numeric_results
#print axioms Svgdx.Props.C14x.eval_once_for_numeric_results_ratOps
