/-
  C05 — Output is a fixed point: re-processing svgdx output changes nothing.

  The argument: (i) the root written for a document whose outermost element is `<svg>` declares the SVG
  namespace (unless the author supplied another one), so the output is "real SVG"; (ii) real SVG is not
  processed at all (C03) but read and written back; (iii) read-then-write reproduces the bytes.
  (iii) is proved without side conditions in Props/C05Xml.lean (imported here): the tokenizer reads back
  exactly the events the writer wrote (`tokenizer_reads_what_was_written`), so the second pass is the
  identity on every output of the writer whose names are XML names (`second_pass_identity`,
  `second_pass_identity_checked`); `second_pass_identity_partial` below is the older form with the
  explicit hypotheses on end tags and DOCTYPE.
-/
import Svgdx.Proofs.XmlRaw
import Svgdx.Proofs.XmlWrite
import Svgdx.Proofs.CtlInv
import Svgdx.Props.C05Xml

namespace Svgdx.Props.C05
open Svgdx Xml

/-- (i) **the written root is a real-SVG root**: when the author gave no namespace the root attribute
    `xmlns` is exactly the SVG namespace, under every configuration and extent -/
theorem output_root_is_real_svg (cfg : Doc.RootCfg) (orig a : Attrs) (bb : Option Gen.BoundingBox)
    (hn : Attrs.NodupKeys orig) (hx : Attrs.contains orig cs!"xmlns" = false)
    (h : Doc.rootAttrs cfg orig bb = some a) : Attrs.get a cs!"xmlns" = some Doc.svgNs := by
  have hb := Doc.rootBase_xmlns_value cfg orig hn hx
  unfold Doc.rootAttrs at h
  split at h
  · cases h; exact hb
  · rw [Doc.rootGeom_keeps_xmlns cfg orig _ _ _ (Doc.rootBase_spec cfg orig hn).1.1 h]; exact hb

/-- an author-supplied namespace is kept verbatim — if it is the SVG namespace the output is real SVG
    as well; any other value is the one case in which the fixed point is not guaranteed -/
theorem author_namespace_kept (cfg : Doc.RootCfg) (orig : Attrs) (hn : Attrs.NodupKeys orig) (k : Str)
    (hk : Attrs.contains orig k = true) : Attrs.contains (Doc.rootBase cfg orig) k = true :=
  (Doc.rootBase_spec cfg orig hn).1.2 k hk

/-- (ii) real SVG is handed through unprocessed, under every configuration (see also C03) -/
theorem second_pass_not_processed {ρ : Type} (ev : Ctl.Evalr ρ) (fuel : Nat) (st : Ctl.St ρ) (ks : Ctl.Nodes)
    (h : Ctl.isRealSvg ks.toList = true) :
    Ctl.transformDoc ev fuel st ks = (true, st, .ok (Ctl.rawNodes ks, none)) := by
  simp [Ctl.transformDoc, h]

/-- (iii) **read-then-write reproduces the document** whenever end tags carry no blank before `>` and a
    DOCTYPE keyword is followed by one blank — which is how the writer itself writes them, so it holds
    for every output of a first pass -/
theorem second_pass_identity_partial (y : Str) (ts : List Tok)
    (ht : tokenize (y.length + 1) y = some ts)
    (hw : ∀ t ∈ ts, (t.kind = .end_ → t.closer = ['>']) ∧ (t.kind = .doctype → t.opener = cs!"<!DOCTYPE ")) :
    passThroughW y = some y := by
  have hr := render_tokenize _ _ _ ht
  simp only [passThroughW, ht, Option.map_some, Option.some.injEq]
  rw [← hr]
  simp only [renderW, render]
  have key : ∀ l : List Tok, (∀ t ∈ l, (t.kind = .end_ → t.closer = ['>']) ∧
      (t.kind = .doctype → t.opener = cs!"<!DOCTYPE ")) → l.flatMap Tok.renderW = l.flatMap Tok.render := by
    intro l
    induction l with
    | nil => intro _; rfl
    | cons t rest ih =>
      intro hl
      obtain ⟨h1, h2⟩ := hl t (by simp)
      have hrest := ih (fun t' ht' => hl t' (by simp [ht']))
      simp only [List.flatMap_cons, hrest]
      congr 1
      unfold Tok.renderW
      cases hk : t.kind <;> simp_all [Tok.render]
  exact key ts hw

/-- worked instance: an output of the transformer with escaped attribute values, generated text,
    a comment and a CDATA style block is reproduced exactly by the second pass -/
example :
    passThroughW cs!"<svg version=\"1.1\" xmlns=\"http://www.w3.org/2000/svg\"><style><![CDATA[ a > b ]]></style><!-- c --><text x=\"1\" class=\"d-text\">1 &lt; 2 &amp; 3</text></svg>"
      = some cs!"<svg version=\"1.1\" xmlns=\"http://www.w3.org/2000/svg\"><style><![CDATA[ a > b ]]></style><!-- c --><text x=\"1\" class=\"d-text\">1 &lt; 2 &amp; 3</text></svg>" := by
  decide +kernel

end Svgdx.Props.C05

#print axioms Svgdx.Props.C05.output_root_is_real_svg
#print axioms Svgdx.Props.C05.author_namespace_kept
#print axioms Svgdx.Props.C05.second_pass_not_processed
#print axioms Svgdx.Props.C05.second_pass_identity_partial
#print axioms Svgdx.Props.C05.tokenizer_reads_what_was_written
#print axioms Svgdx.Props.C05.second_pass_identity
#print axioms Svgdx.Props.C05.second_pass_identity_of_names
#print axioms Svgdx.Props.C05.second_pass_identity_checked
