/-
  C07 — Front-ends agree, transforms are isolated, failures leave no damage.

  (1) The file protocol of the command (`Svgdx.Cli.run`, model of cli.rs Config::from_args and lib.rs
      transform_file; tied to the binary by the cli/protocol correspondence stream), for every file
      system, every canonicalisation function and every transform:
      a failure changes nothing, the input file is never modified, an output path that names the input
      file is refused, a success writes exactly the output file.
  (2) Isolation: every model function takes its whole state as an argument, so a transform cannot depend
      on earlier ones; for the real code the regenerated inventory shows there is no shared mutable state
      to depend on (`no_shared_mutable_state`).
  Agreement of the front-ends on bytes is decided by the frontends/agree stream: the front-ends are thin
  wrappers whose code is not modelled beyond the protocol above.
-/
import Svgdx.Cli.Run
import Svgdx.Gen.Audit

namespace Svgdx.Props.C07
open Svgdx Cli

theorem lookup_filter_ne (files : List (Str × Str)) (p q : Str) (h : q ≠ p) :
    lookup (files.filter (fun f => f.1 != p)) q = lookup files q := by
  induction files with
  | nil => rfl
  | cons f rest ih =>
    obtain ⟨k, c⟩ := f
    by_cases hk : k = p
    · subst hk
      have : (k == q) = false := by simpa using (fun e => h e.symm)
      simp [List.filter, lookup, this, ih]
    · have hb : (k != p) = true := by simpa using hk
      simp only [List.filter, hb, lookup]
      split
      · rfl
      · exact ih

theorem read_write_other (fs : FS) (p c q : Str) (h : q ≠ p) : (fs.write p c).read q = fs.read q := by
  have hb : (p == q) = false := by simpa using (fun e => h e.symm)
  simp [FS.write, FS.read, lookup, hb, lookup_filter_ne _ _ _ h]

theorem read_write_self (fs : FS) (p c : Str) : (fs.write p c).read p = some c := by
  simp [FS.write, FS.read, lookup]

/-- **a failed transform leaves every file byte-for-byte untouched** and is reported as an error -/
theorem failure_leaves_no_damage (canon : Str → Str) (T : Str → Option Str) (fs : FS) (inp out : Str)
    (hT : ∀ b, fs.read (canon inp) = some b → T b = none) :
    run canon T fs inp out = (fs, .err) := by
  unfold run
  split
  · rfl
  · split
    · rfl
    · rename_i b hb
      rw [hT b hb]

/-- **the command refuses to write over its own input**: an output path that is (an alias of) the
    existing input file is an error and nothing is written -/
theorem refuses_own_input (canon : Str → Str) (T : Str → Option Str) (fs : FS) (inp out : Str) (b : Str)
    (hin : fs.read (canon inp) = some b) (hsame : canon out = canon inp) :
    run canon T fs inp out = (fs, .err) := by
  unfold run
  simp [hsame, hin]

/-- **the input file is never modified**, whatever happens -/
theorem input_never_modified (canon : Str → Str) (T : Str → Option Str) (fs : FS) (inp out : Str) :
    (run canon T fs inp out).1.read (canon inp) = fs.read (canon inp) := by
  unfold run
  split
  · rfl
  · rename_i hc
    split
    · rfl
    · rename_i b hb
      split
      · rfl
      · rename_i o ho
        by_cases hs : canon out = canon inp
        · exfalso
          simp [hs, hb] at hc
        · exact read_write_other _ _ _ _ (fun e => hs e.symm)

/-- **a success writes exactly the output file**: it then holds the transform's output, every other file
    is as before, and the exit status is success -/
theorem success_writes_only_output (canon : Str → Str) (T : Str → Option Str) (fs : FS) (inp out : Str)
    (b o : Str) (hin : fs.read (canon inp) = some b) (hT : T b = some o) (hne : canon out ≠ canon inp) :
    (run canon T fs inp out).2 = .ok ∧
    (run canon T fs inp out).1.read (canon out) = some o ∧
    ∀ q, q ≠ canon out → (run canon T fs inp out).1.read q = fs.read q := by
  have hc : ((fs.read (canon out)).isSome && canon out == canon inp) = false := by
    simp [hne]
  unfold run
  simp only [hc, Bool.false_eq_true, if_false, hin, hT]
  exact ⟨trivial, read_write_self _ _ _, fun q hq => read_write_other _ _ _ _ hq⟩

/-- the exit status is success exactly when the transform succeeded (and the paths were acceptable) -/
theorem exit_ok_iff (canon : Str → Str) (T : Str → Option Str) (fs : FS) (inp out : Str) :
    (run canon T fs inp out).2 = .ok ↔
      (¬ ((fs.read (canon out)).isSome ∧ canon out = canon inp)) ∧
      ∃ b o, fs.read (canon inp) = some b ∧ T b = some o := by
  unfold run
  by_cases hc : ((fs.read (canon out)).isSome && canon out == canon inp) = true
  · simp only [hc, if_true]
    constructor
    · intro h; cases h
    · rintro ⟨h1, _⟩
      exfalso; apply h1
      simpa using hc
  · simp only [hc, Bool.false_eq_true, if_false]
    have hc' : ¬ ((fs.read (canon out)).isSome ∧ canon out = canon inp) := by simpa using hc
    cases hb : fs.read (canon inp) with
    | none => simp
    | some b =>
      cases ht : T b with
      | none => simp [ht]
      | some o => simp [ht, hc']

/-! ### no state shared between transforms -/

def sharedStateKinds : List Str :=
  [cs!"static mut", cs!"thread_local!", cs!"lazy_static!", cs!"thread_local", cs!"lazy_static", cs!"OnceCell",
   cs!"OnceLock", cs!"LazyLock", cs!"Mutex", cs!"RwLock", cs!"AtomicUsize", cs!"AtomicU64", cs!"AtomicBool"]

/-- **the source has no mutable state outside the per-call transformer**: no `static mut`, thread-local,
    lazily initialised global, lock or atomic anywhere in the non-test code (regenerated inventory) -/
theorem no_shared_mutable_state :
    Gen.Audit.nondetSites.filter (fun s => sharedStateKinds.contains s.2.2.1) = [] := by decide

/-- the only statics are the two constant colour tables -/
theorem statics_are_constant_tables :
    (Gen.Audit.nondetSites.filter (fun s => s.2.2.1 == cs!"static")).map (·.2.1) =
      [cs!"(static COLOUR_LIST)", cs!"(static DARK_COLOURS)"] := by decide

end Svgdx.Props.C07

#print axioms Svgdx.Props.C07.failure_leaves_no_damage
#print axioms Svgdx.Props.C07.refuses_own_input
#print axioms Svgdx.Props.C07.input_never_modified
#print axioms Svgdx.Props.C07.success_writes_only_output
#print axioms Svgdx.Props.C07.exit_ok_iff
#print axioms Svgdx.Props.C07.no_shared_mutable_state
#print axioms Svgdx.Props.C07.statics_are_constant_tables
