/-
  C11, extension (Svgdx/Proofs/Shorthand.lean): the second and third clause - "every shorthand is
  exactly equivalent to its longhand pair" and "only the native geometry attributes are left" - on the
  hand model of element.rs / position.rs (`Svgdx.Geom.Resolve`: `splitCompoundAttr`, `expandPair`,
  `expandCompoundSize`, `expandCompoundPos`, `toPosition`, `setPositionAttrs`). For ALL elements,
  attribute lists and value strings; the only standing hypothesis is the AttrMap invariant
  `NodupKeys e.attrs` (no key twice; `pop` removes the first occurrence only).
   * `split_two`: for `a`, `b` non-empty, free of white space and commas (`isWord`), `a` not starting
     with `#` / `^` (`plainHead`): `split_compound_attr` of "a b", "a,b", "a, b", "a ,b" is `(a, b)`;
     `split_single`: of "a" it is `(a, a)` (also for a bare element reference);
     `split_spellings_agree`: the comma spellings give what the blank spelling gives;
   * `expandCompoundSize_is_sizeMap`, `expandCompoundPos_is_posMap`: the two functions, read through
     `getAttr`, are the explicit functions `sizeMap` / `posMap` on attribute maps `Str → Option Str`
     (compositions of the one block `pairMap` and of `xyMap` for `xy` / `xy-loc`);
   * `existing_longhand_wins`: one block `k ↦ k1, k2`: `k` is gone, `k1` is the element's own `k1` if it
     has one and the first value otherwise, likewise `k2`, nothing else changes. So a longhand
     attribute always wins over the compound one (`insert_first`), in the model as in the code;
   * `size_shorthand_is_longhand` (wh, rxy, dwh - on EVERY element name), `pos_shorthand_is_longhand`
     (cxy, xy1, xy2, dxy), `xy_shorthand_is_longhand` (xy with every `xy-loc`): if `eL` is `eS` with the
     compound attribute written as its pair (`SpelledE` / `SpelledXYE`, decidable: same name, `eS` has
     `k = v` and neither `k1` nor `k2`, `eL` has `k1`, `k2` = the two halves of `v` and no `k`, all other
     keys agree) then the two expansions have the same name and the same attribute MAP (`getAttr` equal
     as functions). The one-value form is the instance `v = a` through `split_single`. Side condition
     for cxy / xy1 / xy2: an `xy` of the same element does not expand (through `xy-loc`) to `k1` / `k2`;
   * `expand_drops_shorthand`: after both expansions none of wh, rxy, dwh, xy, cxy, xy1, xy2, dxy, xy-loc
     is a key - no hypothesis on the element name or on the presence of an `xy`;
   * `nothing_foreign_left`: for rect / circle / ellipse / line and any `Position` with a box, no name of
     `removeList` (generated `Gen.Position.removeAttrs`) is a key after `setPositionAttrs`;
     `native_present`: width height | r | rx ry are keys, and x y | cx cy | cx cy | x1 y1 x2 y2 on every
     axis on which the position has a value (`solved_axes_have_position`: always when that axis was solved
     from two constraints; a line always has all four);
     `only_native_longhand`, `native_exact`: of the 17 longhand geometry / delta names exactly the native
     ones are keys (a rect may keep `rx` / `ry`, its own corner radii);
     `output_clean`: expansion followed by `setPositionAttrs`: none of the nine compound names (`xy-loc`
     included) and no removed name is a key;
   * `position_of_same_map`: `Position::from` depends on name and attribute map only.
   * `Examples.*`: the hypotheses hold for concrete elements and the full `resolvePosition` of both
     spellings is the same list.
  FOUND BY THESE PROOFS AND REPAIRED IN THE CODE (element.rs) AND, FOR THE SECOND, IN THE MODEL:
     - `xy-loc` without an `xy` stayed in the output (`<rect x="0" y="0" wh="10" xy-loc="c"/>`): the
       hypothesis "there was an `xy`" could not be removed from `expand_drops_shorthand`. Now
       `expand_compound_pos` pops `xy-loc` unconditionally (`Examples.xy_loc_consumed`);
     - `rxy` on anything but an ellipse: the model kept the attribute, the code popped and DISCARDED it
       (the tuple in `if let ("ellipse", Some(rxy)) = (name, self.attrs.pop("rxy"))` is evaluated before
       it is matched) - a deviation of the model from the code, and in both not `rx` / `ry`
       (`<circle cxy="0" rxy="5"/>` had no radius). Now `rxy` expands on every element
       (`Examples.rxy_on_rect_model`).
  STILL FAILING, model = code (not repaired, over-specified input / by design):
     `Examples.compound_against_compound` (xy + xy-loc="c" + cxy: cxy loses, cx / cy would win),
     `Examples.size_only` (`<rect wh="10"/>`: a box but no x / y written).
  NOT proved: equality of the ORDERED attribute lists after expansion (false in general: `dx`, `dy`, `dw`,
  `dh` have no priority and land where the compound attribute was popped, not where the longhand pair
  stood; they are removed later); the composition through all of `resolvePosition` for arbitrary
  literal elements (d) - `evalRelAttributes` folds over the ordered list; only the instances in
  `Examples` and `position_of_same_map` are there; element references inside compound values
  (`#id 10 20`) are outside `split_two`; an `xy-loc` on the LONGHAND side of `SpelledXYE` (it would now be
  dropped too) is excluded by the predicate.
-/
import Svgdx.Proofs.Shorthand

#print axioms Svgdx.Props.C11x.split_two
#print axioms Svgdx.Props.C11x.split_single
#print axioms Svgdx.Props.C11x.split_spellings_agree
#print axioms Svgdx.Props.C11x.expandCompoundSize_is_sizeMap
#print axioms Svgdx.Props.C11x.expandCompoundPos_is_posMap
#print axioms Svgdx.Props.C11x.existing_longhand_wins
#print axioms Svgdx.Props.C11x.size_shorthand_is_longhand
#print axioms Svgdx.Props.C11x.pos_shorthand_is_longhand
#print axioms Svgdx.Props.C11x.xy_shorthand_is_longhand
#print axioms Svgdx.Props.C11x.expand_drops_shorthand
#print axioms Svgdx.Props.C11x.nothing_foreign_left
#print axioms Svgdx.Props.C11x.native_present
#print axioms Svgdx.Props.C11x.only_native_longhand
#print axioms Svgdx.Props.C11x.native_exact
#print axioms Svgdx.Props.C11x.solved_axes_have_position
#print axioms Svgdx.Props.C11x.output_clean
#print axioms Svgdx.Props.C11x.position_of_same_map
#print axioms Svgdx.Props.C11x.Examples.rS_rL_spelled
#print axioms Svgdx.Props.C11x.Examples.rS_rL2_spelled
#print axioms Svgdx.Props.C11x.Examples.rS_rL_resolve
#print axioms Svgdx.Props.C11x.Examples.cS_cL_spelled
#print axioms Svgdx.Props.C11x.Examples.cS_cL_resolve
#print axioms Svgdx.Props.C11x.Examples.cL_hyp
#print axioms Svgdx.Props.C11x.Examples.longhand_wins
#print axioms Svgdx.Props.C11x.Examples.xy_loc_consumed
#print axioms Svgdx.Props.C11x.Examples.rxy_on_rect_model
#print axioms Svgdx.Props.C11x.Examples.compound_against_compound
#print axioms Svgdx.Props.C11x.Examples.size_only
