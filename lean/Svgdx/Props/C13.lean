/-
  C13 — Connectors start and end on the referenced elements.

  Theorems about the hand model of connector.rs (`Svgdx.Conn`, tied to the code by the
  `doc/connector` correspondence stream) over the GENERATED `locspec` / `calc_offset`.
-/
import Svgdx.Geom.Connector
import Mathlib.Tactic.Ring
import Mathlib.Tactic.Linarith
import Mathlib.Tactic.Positivity

namespace Svgdx.Props.C13
open Svgdx Gen Conn

/-! ### "candidate locations of minimal distance": the fold is an argmin with first-minimum ties -/

theorem foldl_argmin_inv {α : Type} (f : α → Rat) (xs : List α) (a : α) (m : Option Rat) (seen : List α)
    (hm : ∀ v, m = some v → v = f a ∧ a ∈ seen ∧ ∀ y ∈ seen, f a ≤ f y)
    (hn : m = none → seen = []) :
    let r := xs.foldl (fun (acc : α × Option Rat) x =>
        match acc.2 with
        | none => (x, some (f x))
        | some m => if f x < m then (x, some (f x)) else acc) (a, m)
    (seen ++ xs ≠ [] → r.1 ∈ seen ++ xs) ∧ ∀ y ∈ seen ++ xs, f r.1 ≤ f y := by
  induction xs generalizing a m seen with
  | nil =>
    simp only [List.foldl_nil, List.append_nil]
    cases m with
    | none => simp [hn rfl]
    | some v =>
      obtain ⟨_, h2, h3⟩ := hm v rfl
      exact ⟨fun _ => h2, h3⟩
  | cons x xs ih =>
    simp only [List.foldl_cons]
    cases m with
    | none =>
      have hs := hn rfl
      subst hs
      have := ih x (some (f x)) [x]
        (by intro v hv; cases hv; exact ⟨rfl, by simp, by simp⟩) (by simp)
      simpa using this
    | some v =>
      obtain ⟨h1, h2, h3⟩ := hm v rfl
      subst h1
      by_cases hlt : f x < f a
      · simp only [hlt, if_true]
        have := ih x (some (f x)) (seen ++ [x])
          (by
            intro v hv; cases hv
            refine ⟨rfl, by simp, ?_⟩
            intro y hy
            rcases List.mem_append.mp hy with hy | hy
            · exact le_trans (le_of_lt hlt) (h3 y hy)
            · simp at hy; subst hy; exact le_refl _)
          (by simp)
        simpa [List.append_assoc] using this
      · simp only [hlt, if_false]
        have := ih a (some (f a)) (seen ++ [x])
          (by
            intro v hv; cases hv
            refine ⟨rfl, by simp [h2], ?_⟩
            intro y hy
            rcases List.mem_append.mp hy with hy | hy
            · exact h3 y hy
            · simp at hy; subst hy; exact not_lt.mp hlt)
          (by simp)
        simpa [List.append_assoc] using this

/-- `argminFirst` returns a member of a non-empty candidate list whose value is minimal -/
theorem argminFirst_minimal {α : Type} (f : α → Rat) (init : α) (xs : List α) (hne : xs ≠ []) :
    argminFirst f init xs ∈ xs ∧ ∀ y ∈ xs, f (argminFirst f init xs) ≤ f y := by
  have := foldl_argmin_inv f xs init none [] (by simp) (by simp)
  simp only [List.nil_append] at this
  exact ⟨this.1 hne, this.2⟩

theorem edgeLocations_ne_nil (ct : ConnType) : edgeLocations ct ≠ [] := by
  cases ct <;> simp [edgeLocations]

/-- **closest_loc**: the chosen location is one of the candidates of the connector kind (edge mid-points,
    plus corners for straight lines) and no candidate is closer to the given point -/
theorem closest_minimal (bb : BoundingBox) (p : Rat × Rat) (ct : ConnType) :
    closestLoc bb p ct ∈ edgeLocations ct ∧
    ∀ l ∈ edgeLocations ct, distSq (bb.locspec (closestLoc bb p ct)) p ≤ distSq (bb.locspec l) p :=
  argminFirst_minimal _ _ _ (edgeLocations_ne_nil ct)

/-- **shortest_link**: with both ends free, the chosen pair of candidates has minimal distance among all pairs -/
theorem shortest_minimal (a b : BoundingBox) (ct : ConnType) :
    (shortestLink a b ct).1 ∈ edgeLocations ct ∧ (shortestLink a b ct).2 ∈ edgeLocations ct ∧
    ∀ l1 ∈ edgeLocations ct, ∀ l2 ∈ edgeLocations ct,
      distSq (a.locspec (shortestLink a b ct).1) (b.locspec (shortestLink a b ct).2)
        ≤ distSq (a.locspec l1) (b.locspec l2) := by
  have hne : ((edgeLocations ct).flatMap fun l1 => (edgeLocations ct).map fun l2 => (l1, l2)) ≠ [] := by
    cases ct <;> simp [edgeLocations]
  have h := argminFirst_minimal (fun p : LocSpec × LocSpec => distSq (a.locspec p.1) (b.locspec p.2))
    (LocSpec.Center, LocSpec.Center) _ hne
  have hmem := h.1
  simp only [List.mem_flatMap, List.mem_map] at hmem
  obtain ⟨l1, hl1, l2, hl2, heq⟩ := hmem
  refine ⟨?_, ?_, ?_⟩
  · unfold shortestLink; rw [← heq]; exact hl1
  · unfold shortestLink; rw [← heq]; exact hl2
  · intro m1 hm1 m2 hm2
    exact h.2 (m1, m2) (by simp only [List.mem_flatMap, List.mem_map]; exact ⟨m1, hm1, m2, hm2, rfl⟩)

/-- every candidate location lies on the boundary of the (ordered) bounding box -/
theorem candidates_on_boundary (bb : BoundingBox) (hx : bb.x1 ≤ bb.x2) (hy : bb.y1 ≤ bb.y2) (ct : ConnType) :
    ∀ l ∈ edgeLocations ct,
      let p := bb.locspec l
      (p.1 = bb.x1 ∨ p.1 = bb.x2 ∨ p.2 = bb.y1 ∨ p.2 = bb.y2) ∧
      bb.x1 ≤ p.1 ∧ p.1 ≤ bb.x2 ∧ bb.y1 ≤ p.2 ∧ p.2 ≤ bb.y2 := by
  intro l hl
  cases ct <;> simp only [edgeLocations, List.mem_cons, List.mem_nil_iff, or_false] at hl <;>
    rcases hl with rfl | rfl | rfl | rfl | rfl | rfl | rfl | rfl <;>
    simp only [BoundingBox.locspec] <;>
    refine ⟨by simp, ?_, ?_, ?_, ?_⟩ <;> linarith

/-! ### horizontal / vertical: through the middle of the overlap -/

theorem overlapMid_in_overlap (a1 a2 b1 b2 : Rat) (h : Rq.max a1 b1 ≤ Rq.min a2 b2) :
    Rq.max a1 b1 ≤ overlapMid a1 a2 b1 b2 ∧ overlapMid a1 a2 b1 b2 ≤ Rq.min a2 b2 ∧
    overlapMid a1 a2 b1 b2 - Rq.max a1 b1 = Rq.min a2 b2 - overlapMid a1 a2 b1 b2 := by
  unfold overlapMid
  refine ⟨by linarith, by linarith, by ring⟩

/-! ### corner polylines: axis-parallel segments, perpendicular at both ends -/

def axisParallel (p q : Rat × Rat) : Prop := p.1 = q.1 ∨ p.2 = q.2

def Rectilinear : List (Rat × Rat) → Prop
  | p :: q :: rest => axisParallel p q ∧ Rectilinear (q :: rest)
  | _ => True

/-- a segment that moves only in the direction `d` points (vertical for up/down, horizontal for left/right) -/
def alongDir (d : Dir) (p q : Rat × Rat) : Prop :=
  match d with
  | .up | .down => p.1 = q.1
  | .left | .right => p.2 = q.2

def firstSeg : List (Rat × Rat) → Option ((Rat × Rat) × (Rat × Rat))
  | p :: q :: _ => some (p, q)
  | _ => none

def lastSeg : List (Rat × Rat) → Option ((Rat × Rat) × (Rat × Rat))
  | [p, q] => some (p, q)
  | _ :: rest => lastSeg rest
  | [] => none

/-- **corner connectors**: for all 16 pairs of edge directions and every offset, the polyline consists only
    of axis-parallel segments, leaves the start point along the start edge's normal and enters the end
    point along the end edge's normal, and starts / ends exactly at the two given points -/
theorem corner_rectilinear (s e : Rat × Rat) (sd ed : Dir) (off : Option Length) (pts : List (Rat × Rat))
    (h : cornerPoints s e (some sd) (some ed) off = .ok pts) :
    Rectilinear pts ∧ pts.head? = some s ∧ pts.getLast? = some e ∧
    (∀ p q, firstSeg pts = some (p, q) → alongDir sd p q) ∧
    (∀ p q, lastSeg pts = some (p, q) → alongDir ed p q) := by
  obtain ⟨x1, y1⟩ := s
  obtain ⟨x2, y2⟩ := e
  cases sd <;> cases ed <;> simp only [cornerPoints] at h
  all_goals first
    | (cases h
       simp [Rectilinear, axisParallel, firstSeg, lastSeg, alongDir])
    | (cases hd : off.getD (Length.Absolute 3) with
       | Ratio r => simp [hd, Except.map] at h
       | Absolute a =>
         simp only [hd, Except.map, Except.ok.injEq] at h
         subst h
         simp [Rectilinear, axisParallel, firstSeg, lastSeg, alongDir])

/-- without a direction on either end (corner or centre locations, literal points) the connector is the
    straight segment between the two points -/
theorem corner_without_dir (s e : Rat × Rat) (sd ed : Option Dir) (off : Option Length)
    (h : sd = none ∨ ed = none) : cornerPoints s e sd ed off = .ok [s, e] := by
  obtain ⟨x1, y1⟩ := s
  obtain ⟨x2, y2⟩ := e
  rcases h with rfl | rfl
  · simp [cornerPoints]
  · cases sd <;> simp [cornerPoints]

/-- corner-offset semantics of the Z shapes: the bend is `calc_offset` between the two ends (default 50%) -/
theorem corner_offset_z (x1 y1 x2 y2 : Rat) (off : Option Length) :
    cornerPoints (x1, y1) (x2, y2) (some .right) (some .left) off =
      .ok (let mx := (off.getD (Length.Ratio (1/2))).calc_offset x1 x2
           [(x1, y1), (mx, y1), (mx, y2), (x2, y2)]) := by
  simp [cornerPoints]

/-- **the bend of a Z shape lies between the two ends and the last segment enters from outside**: with an
    absolute corner-offset of magnitude at most the distance travelled - measured from the start when
    positive, back from the end when negative - or a ratio in [0, 1], the bend `mx` is between `x1` and
    `x2`, whichever way the connector travels (`x1 ≤ x2` or `x2 < x1`); in particular a connector that
    runs right-to-left with "this far before the end" does not overshoot into the end box -/
theorem corner_bend_between_ends (x1 x2 : Rat) (off : Length)
    (hoff : match off with
      | .Absolute a => (if a < 0 then -a else a) ≤ (if x2 < x1 then x1 - x2 else x2 - x1)
      | .Ratio r => 0 ≤ r ∧ r ≤ 1) :
    let mx := off.calc_offset x1 x2
    (x1 ≤ x2 → x1 ≤ mx ∧ mx ≤ x2) ∧ (x2 < x1 → x2 ≤ mx ∧ mx ≤ x1) := by
  cases off with
  | Absolute a =>
    by_cases hx : x2 < x1 <;> by_cases ha : a < 0
    · have hb : -a ≤ x1 - x2 := by simpa [hx, ha] using hoff
      simp only [Length.calc_offset, hx, ha, decide_true, if_true]
      exact ⟨fun h => absurd hx (not_lt.mpr h), fun _ => ⟨by linarith, by linarith⟩⟩
    · have hb : a ≤ x1 - x2 := by simpa [hx, ha] using hoff
      simp only [Length.calc_offset, hx, ha, decide_true, decide_false, if_true, if_false, Bool.false_eq_true]
      exact ⟨fun h => absurd hx (not_lt.mpr h), fun _ => ⟨by linarith [not_lt.mp ha], by linarith [not_lt.mp ha]⟩⟩
    · have hb : -a ≤ x2 - x1 := by simpa [hx, ha] using hoff
      simp only [Length.calc_offset, hx, ha, decide_true, decide_false, if_true, if_false, Bool.false_eq_true]
      exact ⟨fun _ => ⟨by linarith, by linarith⟩, fun h => h.elim⟩
    · have hb : a ≤ x2 - x1 := by simpa [hx, ha] using hoff
      simp only [Length.calc_offset, hx, ha, decide_false, if_false, Bool.false_eq_true]
      exact ⟨fun _ => ⟨by linarith [not_lt.mp ha], by linarith [not_lt.mp ha]⟩, fun h => h.elim⟩
  | Ratio r =>
    obtain ⟨h0, h1⟩ := hoff
    simp only [Length.calc_offset]
    constructor <;> intro h <;> constructor <;> nlinarith

/-- U shapes need an absolute offset; a percent offset is an error, not a guess -/
theorem corner_u_needs_absolute (s e : Rat × Rat) (d : Dir) (r : Rat) :
    cornerPoints s e (some d) (some d) (some (Length.Ratio r)) = .error .invalidData := by
  obtain ⟨x1, y1⟩ := s
  obtain ⟨x2, y2⟩ := e
  cases d <;> simp [cornerPoints, Except.map]

/-- worked instance: start on the right edge of (0,0)-(10,10), end on the left edge of (30,20)-(40,30) -/
example : cornerPoints (10, 5) (30, 25) (some .right) (some .left) none
    = .ok [(10, 5), (20, 5), (20, 25), (30, 25)] := by decide +kernel

end Svgdx.Props.C13

#print axioms Svgdx.Props.C13.argminFirst_minimal
#print axioms Svgdx.Props.C13.closest_minimal
#print axioms Svgdx.Props.C13.shortest_minimal
#print axioms Svgdx.Props.C13.candidates_on_boundary
#print axioms Svgdx.Props.C13.overlapMid_in_overlap
#print axioms Svgdx.Props.C13.corner_rectilinear
#print axioms Svgdx.Props.C13.corner_without_dir
#print axioms Svgdx.Props.C13.corner_offset_z
#print axioms Svgdx.Props.C13.corner_bend_between_ends
#print axioms Svgdx.Props.C13.corner_u_needs_absolute
