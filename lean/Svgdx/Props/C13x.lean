/-
  C13, extension (Svgdx/Proofs/ConnGen.lean): the hand model of connector.rs that the C13 theorems are
  about (`Svgdx.Conn`, Svgdx/Geom/Connector.lean) EQUALS, for all inputs, the routing logic regenerated
  from the syn AST of /repo/src/connector.rs on every run (`Svgdx.Gen.Connector`, Svgdx/Gen/Connector.lean).
  A change to an arm, a comparison, an argument order or a constant in connector.rs changes the generated
  definitions and breaks one of these equations.
   * `dirOf_bijective`, `ctOf_bijective`: the correspondence between the hand-written `Dir` / `ConnType`
     and the generated `Direction` / `ConnectionType` is one-to-one and onto (so "all inputs" on the hand
     side is "all inputs" on the generated side);
   * `locToDir_eq_gen`: `Conn.locToDir` is `Connector::loc_to_dir`;
   * `edgeLocations_eq_gen`: `Conn.edgeLocations` is `fn edge_locations` (same locations, same order);
   * `cornerPoints_eq_gen`: `Conn.cornerPoints` is the value assigned to `points` in the
     `ConnectionType::Corner` arm of `Connector::render` (two points unless both directions are known; the
     16 direction pairs: L, Z with `calc_offset` and the 50% default, U with min minus / max plus the absolute
     offset, default 3, and `InvalidData` for a ratio offset), the error mapped by `errOf`;
   * `overlapMid_eq_gen_horizontal`, `overlapMid_eq_gen_vertical`: `Conn.overlapMid` on the scalarspecs
     that `Conn.render` passes is the `midpoint` of the Horizontal / Vertical arm when both ends are
     elements; `midpoint_default_eq_gen`: otherwise it is the start point's y / x;
   * `closestLoc_eq_gen`: `Conn.closestLoc` is the loop of `fn closest_loc` (fold over `edge_locations`,
     strict `<`, `f32::MAX` start modelled as `none`), as a function of the looked-up box;
   * `shortestLink_eq_gen`: `Conn.shortestLink` (one fold over the pairs) is the double loop of
     `fn shortest_link`, as a function of the two looked-up boxes.
  Not regenerated (stays with the hand model and the `doc/connector` correspondence stream): the
  attribute parsing and case analysis of `Connector::from_element`, the element lookups, and the
  `<line>` / `<polyline>` construction at the end of `render`.
-/
/-
  C13, whole-function theorems (Svgdx/Proofs/ConnWhole.lean) about the ELEMENT-LEVEL part of the connector
  model (`Svgdx.Conn` in Svgdx/Geom/Connector.lean: `parseEnd`, `needBB`, `fromElement`, `lineElem`,
  `pointsStr`, `render`, `isConnector`, `transmuteConnector` - the model of `Connector::from_element`,
  `Connector::render` and the connector part of `SvgElement::transmute`).  C13 proves the routing functions,
  C13x ties them to the regenerated code; these theorems say what the functions AROUND them do, for every
  element table `c` and element `e`, under explicit decidable hypotheses.  `Sorted a` = non-decreasing
  `AttrMap::priority`, `NodupKeys a` = distinct keys: the two invariants every `AttrMap::insert` restores.

  (c) FRAME of `transmuteConnector c e`
   * `transmute_nonconnector`: `isConnector e = false` -> the result is `.ok e`, unchanged;
   * `transmute_unfold`, `transmute_ok_inv`: a connector's result is `(render c k).withoutAttr "edge-type"` for
     the `k` of `fromElement c e (connTypeOf e)` (edge-type, else corner for polyline, else straight); any
     error of `fromElement` becomes `InvalidData`, an error of `render` is passed on;
   * `transmute_frame` (Sorted, NodupKeys, isConnector, result `.ok r`): `r.name` is `line` or `polyline`;
     `r.attrs` filtered to the keys other than x1 y1 x2 y2 points IS `e.attrs` filtered to the keys other
     than start / end / corner-offset / edge-type and those five - same entries, same values, same order;
     `r.attrs` is again Sorted with distinct keys (the geometry attributes sit where `AttrMap::priority` puts
     them: after id / href, before everything unlisted); classes, content box, emptiness are those of `e`;
   * `transmute_drops`: `r.getAttr` of start, end, corner-offset, edge-type is `none`;
   * `transmute_keeps`: every key that is none of these four and none of the five geometry keys has in `r`
     the value it has in `e`;
   * `withAttrsFrom_filter`, `filter_foldl_insert`, `insert_sorted_eq`, `pop_fst_eq_filter`: the general facts
     about `with_attrs_from` / `AttrMap::insert` / `pop` behind it (closed form of insert on a sorted map).
  (b) RENDER, one theorem per arm of `render c k`
   * `render_straight`: `.ok (lineElem x1 y1 x2 y2 k.source)` with the two origins;
   * `render_horizontal_boxes` / `render_vertical_boxes` (both ends elements with boxes `sb`, `eb`): the line
     with y1 = y2 (x1 = x2) = `overlapMid` of the two boxes' Miny/Maxy (Minx/Maxx) - axis-parallel by
     construction; `render_horizontal_point` / `render_vertical_point` (an end is a literal): the start
     point's own y (x) on both ends; `render_hv_nobox`: a failing box lookup is the result, no line;
   * `render_corner`: `(cornerPoints ...).map (cornerElem . k.source)`; `render_corner_polyline`: both ends
     with a direction -> `<polyline points = pointsStr pts>` with 3 or 4 points (with `corner_rectilinear`
     of C13: axis-parallel, perpendicular at both ends); `render_corner_line`: an end without direction ->
     the `<line>` between the two points; `render_corner_u_ratio`: same direction on both ends and a ratio
     offset -> `InvalidData`;
   * `lineElem_getAttr`, `polyElem_getAttr`, `pointsStr_cons2`: x1 y1 x2 y2 are `fstr` of the coordinates and
     `points` is "x y, x y, ..." PROVIDED the source element has no attribute of that name (see D1).
  (a) ENDPOINTS of `fromElement c e ct`
   * `fromElement_eq`: with start = s, end = t present, corner-offset absent or a length, `parseEnd c s = S`,
     `parseEnd c t = T`: `fromElement` is `ends c ct S T` (the ten-arm case analysis, restated in
     ConnWhole.lean and proved equal here for ALL S, T) wrapped with source = e minus the three attributes,
     the looked-up elements, `ct` and the offset.  `Reads c e off S T` bundles these hypotheses;
   * `ends_point_point`: both literal points verbatim, no direction;
   * `ends_point_elem` / `ends_elem_point`: the literal verbatim; the other end at `bb.locspec loc`,
     direction `locToDir loc`, `loc` = the named location, else `closestLoc bb <the literal> ct` - and then no
     candidate of `edgeLocations ct` is closer (`closest_minimal`);
   * `ends_named_named`: `sb.locspec l1`, `eb.locspec l2`, directions `locToDir l1`, `locToDir l2`;
   * `ends_bare_bare`: the pair of `shortestLink sb eb ct`; no pair of candidates is closer (`shortest_minimal`);
   * `ends_bare_named` / `ends_named_bare` (mixed): the named end at its location, the bare end at
     `closestLoc` against THAT POINT (not `shortestLink`), minimal among the candidates;
   * `ends_unresolved`: a reference that is not in the table -> `Other`; `ends_nobox_start` / `ends_nobox_end`:
     a referenced element whose box lookup fails or is empty (`needBB_ok_iff`) -> that error (the other end
     being fine) - never a default point; `fromElement_missing`: no start / no end -> `MissingAttribute`;
   * `parseEnd_ref`: `#id[@loc]` / `^[@loc]` -> the table entry (possibly none) and the location;
     `parseEnd_point_iff`: a literal point is exactly the first two numbers of the attribute.
  Every family has an `example` on a concrete table (a (0,0)-(10,10), b (30,4)-(40,14), g without box) at
  the end of ConnWhole.lean, evaluated by the kernel.

  DEVIATIONS property / code found (model = code; both checked against target/debug/svgdx):
   D1 `<line start="#a" end="#b" x1="99"/>` -> `<line x1="99" y1="5" x2="30" y2="4"/>`: `with_attrs_from` lets
      the connector's own x1 / y1 / x2 / y2 / points override the computed end points, so the line is not
      "drawn between points on the referenced elements' boxes".  Hence the hypothesis of `lineElem_getAttr`.
   D2 `<line start="#a@b" end="#b@b" edge-type="h"/>` -> `<line x1="5" y1="7" x2="35" y2="7"/>`: with edge-type
      h / v and two element ends the y (x) is the overlap middle EVEN WHEN a location is named, so the ends
      are at (5,7) and (35,7), inside both boxes, not at the named locations (5,10), (35,14) (connector.rs
      has a TODO on this).  `render_horizontal_boxes` states what the code does.
  NOT proved: anything about `c.bb` (get_element_bbox) itself; the `ends` arms where BOTH boxes fail (the
  order of the two lookups decides which error surfaces; it is fixed by `ends`, not restated); the position
  of the geometry attributes relative to other LISTED priority keys beyond `Sorted r.attrs`; that elements
  reaching `transmute` satisfy Sorted / NodupKeys (an `AttrMap` invariant, assumed); the correspondence of
  the element-level model to connector.rs stays with the `doc/connector` test stream.
-/
import Svgdx.Proofs.ConnGen
import Svgdx.Proofs.ConnWhole

#print axioms Svgdx.Props.C13x.dirOf_bijective
#print axioms Svgdx.Props.C13x.ctOf_bijective
#print axioms Svgdx.Props.C13x.locToDir_eq_gen
#print axioms Svgdx.Props.C13x.edgeLocations_eq_gen
#print axioms Svgdx.Props.C13x.cornerPoints_eq_gen
#print axioms Svgdx.Props.C13x.overlapMid_eq_gen_horizontal
#print axioms Svgdx.Props.C13x.overlapMid_eq_gen_vertical
#print axioms Svgdx.Props.C13x.midpoint_default_eq_gen
#print axioms Svgdx.Props.C13x.closestLoc_eq_gen
#print axioms Svgdx.Props.C13x.shortestLink_eq_gen
#print axioms Svgdx.Props.C13w.transmute_nonconnector
#print axioms Svgdx.Props.C13w.transmute_unfold
#print axioms Svgdx.Props.C13w.transmute_ok_inv
#print axioms Svgdx.Props.C13w.transmute_frame
#print axioms Svgdx.Props.C13w.transmute_drops
#print axioms Svgdx.Props.C13w.transmute_keeps
#print axioms Svgdx.Props.C13w.withAttrsFrom_filter
#print axioms Svgdx.Props.C13w.filter_foldl_insert
#print axioms Svgdx.Props.C13w.insert_sorted_eq
#print axioms Svgdx.Props.C13w.pop_fst_eq_filter
#print axioms Svgdx.Props.C13w.render_straight
#print axioms Svgdx.Props.C13w.render_horizontal_boxes
#print axioms Svgdx.Props.C13w.render_horizontal_point
#print axioms Svgdx.Props.C13w.render_vertical_boxes
#print axioms Svgdx.Props.C13w.render_vertical_point
#print axioms Svgdx.Props.C13w.render_hv_nobox
#print axioms Svgdx.Props.C13w.render_corner
#print axioms Svgdx.Props.C13w.render_corner_polyline
#print axioms Svgdx.Props.C13w.render_corner_line
#print axioms Svgdx.Props.C13w.render_corner_u_ratio
#print axioms Svgdx.Props.C13w.lineElem_getAttr
#print axioms Svgdx.Props.C13w.polyElem_getAttr
#print axioms Svgdx.Props.C13w.pointsStr_cons2
#print axioms Svgdx.Props.C13w.fromElement_eq
#print axioms Svgdx.Props.C13w.ends_point_point
#print axioms Svgdx.Props.C13w.ends_point_elem
#print axioms Svgdx.Props.C13w.ends_elem_point
#print axioms Svgdx.Props.C13w.ends_named_named
#print axioms Svgdx.Props.C13w.ends_bare_bare
#print axioms Svgdx.Props.C13w.ends_bare_named
#print axioms Svgdx.Props.C13w.ends_named_bare
#print axioms Svgdx.Props.C13w.ends_unresolved
#print axioms Svgdx.Props.C13w.ends_nobox_start
#print axioms Svgdx.Props.C13w.ends_nobox_end
#print axioms Svgdx.Props.C13w.fromElement_missing
#print axioms Svgdx.Props.C13w.needBB_ok_iff
#print axioms Svgdx.Props.C13w.parseEnd_ref
#print axioms Svgdx.Props.C13w.parseEnd_point_iff
