/-
  C13, extension (Svgdx/Proofs/ConnGen.lean): the hand model of connector.rs that the C13 theorems are
  about (`Svgdx.Conn`, Svgdx/Geom/Connector.lean) EQUALS, for all inputs, the routing logic regenerated
  from the syn AST of /repo/src/connector.rs on every run (`Svgdx.Gen.Connector`, Svgdx/Gen/Connector.lean).
  A change to an arm, a comparison, an argument order or a constant in connector.rs changes the generated
  definitions and breaks one of these equations.
   * `dirOf_bijective`, `ctOf_bijective`: the correspondence between the hand-written `Dir` / `ConnType`
     and the generated `Direction` / `ConnectionType` is one-to-one and onto (so "all inputs" on the hand
     side is "all inputs" on the generated side);
   * `locToDir_eq_gen`: `Conn.locToDir` is `Connector::loc_to_dir`;
   * `edgeLocations_eq_gen`: `Conn.edgeLocations` is `fn edge_locations` (same locations, same order);
   * `cornerPoints_eq_gen`: `Conn.cornerPoints` is the value assigned to `points` in the
     `ConnectionType::Corner` arm of `Connector::render` (two points unless both directions are known; the
     16 direction pairs: L, Z with `calc_offset` and the 50% default, U with min minus / max plus the absolute
     offset, default 3, and `InvalidData` for a ratio offset), the error mapped by `errOf`;
   * `overlapMid_eq_gen_horizontal`, `overlapMid_eq_gen_vertical`: `Conn.overlapMid` on the scalarspecs
     that `Conn.render` passes is the `midpoint` of the Horizontal / Vertical arm when both ends are
     elements; `midpoint_default_eq_gen`: otherwise it is the start point's y / x;
   * `closestLoc_eq_gen`: `Conn.closestLoc` is the loop of `fn closest_loc` (fold over `edge_locations`,
     strict `<`, `f32::MAX` start modelled as `none`), as a function of the looked-up box;
   * `shortestLink_eq_gen`: `Conn.shortestLink` (one fold over the pairs) is the double loop of
     `fn shortest_link`, as a function of the two looked-up boxes.
  Not regenerated (stays with the hand model and the `doc/connector` correspondence stream): the
  attribute parsing and case analysis of `Connector::from_element`, the element lookups, and the
  `<line>` / `<polyline>` construction at the end of `render`.
-/
import Svgdx.Proofs.ConnGen

#print axioms Svgdx.Props.C13x.dirOf_bijective
#print axioms Svgdx.Props.C13x.ctOf_bijective
#print axioms Svgdx.Props.C13x.locToDir_eq_gen
#print axioms Svgdx.Props.C13x.edgeLocations_eq_gen
#print axioms Svgdx.Props.C13x.cornerPoints_eq_gen
#print axioms Svgdx.Props.C13x.overlapMid_eq_gen_horizontal
#print axioms Svgdx.Props.C13x.overlapMid_eq_gen_vertical
#print axioms Svgdx.Props.C13x.midpoint_default_eq_gen
#print axioms Svgdx.Props.C13x.closestLoc_eq_gen
#print axioms Svgdx.Props.C13x.shortestLink_eq_gen
