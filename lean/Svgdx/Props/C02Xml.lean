/-
  C02 (composition) — every output of the writer is accepted by an INDEPENDENT recogniser of well-formed XML.

  `C02` proves the ingredients one by one (escaping exact and safe, comments delimited, attributes unique, tags
  nested). Here they are composed: `Svgdx.Xml.Spec.wfContent` is written from the productions of XML 1.0, not from
  the writer or the reader model, and it accepts `write evs` for every balanced event list with XML Names and
  unique attribute names; for the transformer's own output these hypotheses are reduced to the input document.

  Composing the ingredients brought two defects of the code to light, both repaired since and the repairs mirrored
  in the model: an emptied `<svg/>` that was not at the top level was closed at the very end of the document
  (`<g><svg/></g>` ↦ `<g><svg …></g></svg>`; fix 229d1ae, refined by 52b6ad7 so that an empty or unclosed root at
  the top level still encloses the rest of the document; `Doc.postprocess`), and characters XML cannot contain
  (`&#2;` resolved by the reader) were written as they were (fix 031e68d: the writer's `XmlCharGuard`,
  `Xml.xmlChar` / `Xml.writeChecked`). With the repairs `postprocess` keeps every balanced list balanced and
  every successful write is well-formed in the STRICT sense (`Spec.wfContentStrict`: the `Char` production too).
-/
import Svgdx.Proofs.XmlSpec
import Svgdx.Proofs.XmlCompose
import Svgdx.Proofs.XmlOutput
import Svgdx.Proofs.XmlNames
import Svgdx.Props.C05Xml

namespace Svgdx.Props.C02
open Svgdx Xml Ctl Ctl.Emit

/-! ### the recogniser is not a rubber stamp -/

/-- overlapping elements -/
example : Spec.wfContent cs!"<a><b></a></b>" = false := by decide +kernel
/-- an attribute twice -/
example : Spec.wfContent cs!"<a x=\"1\" x=\"2\"/>" = false := by decide +kernel
/-- a bare ampersand, an incomplete and an unknown reference -/
example : Spec.wfContent cs!"<a>&</a>" = false := by decide +kernel
example : Spec.wfContent cs!"<a>&#x;</a>" = false := by decide +kernel
example : Spec.wfContent cs!"<a>&nbsp;</a>" = false := by decide +kernel
/-- `--` inside a comment, a comment ending in `--->` -/
example : Spec.wfContent cs!"<!-- a -- b -->" = false := by decide +kernel
example : Spec.wfContent cs!"<!-- a --->" = false := by decide +kernel
/-- `]]>` in character data, `<` in an attribute value, attributes not separated, an unclosed element,
    an end tag without start, a name starting with a digit, a processing instruction -/
example : Spec.wfContent cs!"<a>]]></a>" = false := by decide +kernel
example : Spec.wfContent cs!"<a x=\"<\"/>" = false := by decide +kernel
example : Spec.wfContent cs!"<a x=\"1\"y=\"2\"/>" = false := by decide +kernel
example : Spec.wfContent cs!"<a>" = false := by decide +kernel
example : Spec.wfContent cs!"</a>" = false := by decide +kernel
example : Spec.wfContent cs!"<1a/>" = false := by decide +kernel
example : Spec.wfContent cs!"<?x y?>" = false := by decide +kernel
/-- accepted: both quote kinds, blanks around `=`, before `>` and in an end tag, character references -/
example : Spec.wfContent cs!"<a x = '1>' y=\"'\" >&#x1F;&#10;&amp;</a >" = true := by decide +kernel
/-- a realistic output document -/
example : Spec.wfContent cs!"<svg version=\"1.1\" xmlns=\"http://www.w3.org/2000/svg\" width=\"14mm\" height=\"12mm\" viewBox=\"-5 -5 14 12\">\n  <style>\n    <![CDATA[\n      svg { background: none; }\n      rect > text, a&b { stroke-width: 0.5; }\n    ]]>\n  </style>\n<!-- c - d -->\n<g id=\"a\"><rect x=\"0\" y=\"0\" width=\"4\" height=\"2\" data-t=\"1 &lt; 2 &amp; &quot;q&quot;\"/>\n<text x=\"2\" y=\"1\" class=\"d-text\">\n<tspan x=\"2\" dy=\"-0.525em\">hi</tspan><tspan x=\"2\" dy=\"1.05em\">yo &gt; u</tspan>\n</text>\n</g>\n</svg>" = true := by
  decide +kernel

/-! ### the writer -/

/-- **every output of the writer is well-formed XML content**: tags balanced with matching names, start tags of
    the form `<Name (S Name="AttValue")* >` or `… />` with pairwise distinct attribute names, no `<` or `"` in
    an attribute value, every `&` in character data or a value beginning a predefined or character reference,
    no `--` in a comment, no `]]>` in a CDATA section or in character data, no `<` in character data -/
theorem output_wellformed (evs : List Ev) (hb : Balanced evs) (hn : NamesOk evs) (hu : AttrsUnique evs) :
    Spec.wfContent (write evs) = true := write_wellformed evs hb hn hu

/-- … and a fixed point of read-then-write, from the same hypotheses -/
theorem output_wellformed_and_fixed (evs : List Ev) (hb : Balanced evs) (hn : NamesOk evs) (hu : AttrsUnique evs) :
    Spec.wfContent (write evs) = true ∧ passThroughW (write evs) = some (write evs) :=
  write_wellformed_fixed evs hb hn hu

/-- the hostile event list of `C05Xml` satisfies the hypotheses (checked, not assumed) … -/
example : Balanced C05.hostile ∧ NamesOk C05.hostile := ⟨(balanced_iff_check _).mpr (by decide +kernel), by decide +kernel⟩
/-- … and its written form is accepted, by evaluation as well -/
example : Spec.wfContent (write C05.hostile) = true := by decide +kernel

/-- each hypothesis is needed: an unbalanced list, a name that is no Name, a repeated attribute -/
example : Spec.wfContent (write [.start { name := ['a'], attrs := [] }]) = false := by decide +kernel
example : Spec.wfContent (write [.empty { name := cs!"a b", attrs := [] }]) = false ∧
    Spec.wfContent (write [.empty { name := cs!"a<", attrs := [] }]) = false := by decide +kernel
example : Spec.wfContent (write [.empty { name := ['a'], attrs := [(['x'], ['1']), (['x'], ['2'])] }]) = false := by
  decide +kernel
example : Spec.wfContent (write [.empty { name := ['a'], attrs := [(cs!"class", ['1'])], classes := [['c']] }]) = false := by
  decide +kernel

/-- the writer's guard is exactly the `Char` production [2] of XML 1.0 (on Lean characters, i.e. Unicode scalar
    values: the surrogates, which `Char` excludes too, cannot occur) -/
theorem guard_is_char_production (c : Char) : Spec.isChar c = xmlChar c := isChar_eq_xmlChar c

/-- **every successful write is strictly well-formed**: `writeChecked` (the writer with its `XmlCharGuard`,
    fix 031e68d) returns a text only if all its characters are XML characters; that text is then accepted by the
    recogniser with the `Char` production added -/
theorem output_wellformed_strict (evs : List Ev) (out : Str) (hw : writeChecked evs = some out)
    (hb : Balanced evs) (hn : NamesOk evs) (hu : AttrsUnique evs) : Spec.wfContentStrict out = true :=
  writeChecked_wellformed_strict evs out hw hb hn hu

/-- the repaired defect: a control character in an attribute value or in text is no longer written — the guarded
    writer refuses (`write` alone would still produce the text, which is not strictly well-formed) -/
example : writeChecked [.start { name := ['a'], attrs := [(['x'], [Char.ofNat 1])] }, .text [Char.ofNat 2], .end_ ['a']]
      = none ∧
    Spec.wfContentStrict (write [.start { name := ['a'], attrs := [(['x'], [Char.ofNat 1])] }, .text [Char.ofNat 2], .end_ ['a']]) = false := by
  decide +kernel
/-- tab, line feed and carriage return pass the guard, U+FFFE does not -/
example : writeChecked [.text cs!"a\tb\nc\rd"] = some cs!"a\tb\nc\rd" ∧ writeChecked [.text [Char.ofNat 0xFFFE]] = none := by
  decide +kernel
/-- the hostile list of `C05Xml` is written (nothing in it is refused) and strictly well-formed -/
example : (writeChecked C05.hostile).map Spec.wfContentStrict = some true := by decide +kernel

/-! ### the transformer's own output -/

/-- **attribute names of emitted elements are unique** for every input whose elements are as the reader builds
    them (`Elem.new`: unique names, `class` kept in the class list) -/
theorem emitted_attributes_unique {ρ : Type} (ev : Evalr ρ) (fuel : Nat) (st : St ρ) (ks : Nodes) (evs : List Ev)
    (bb : Option Gen.BoundingBox) (hst : StateUnique st) (hks : DocUnique ks)
    (h : (transformDoc ev fuel st ks).2.2 = .ok (evs, bb)) : AttrsUnique evs :=
  transformDoc_attrsUnique ev fuel st ks evs bb hst hks h

/-- the reader's constructor establishes the input condition, whatever attribute list it is given -/
theorem reader_elements_unique (name : Str) (attrs : List (Str × Str)) : UStrong (Elem.new name attrs) :=
  elem_new_ustrong name attrs

/-- **names of emitted elements and attributes are XML Names if those of the input are** (a name in the output is
    a name of the input or one of the constants `genNames` / `genKeys` of the model) -/
theorem emitted_names_ok {ρ : Type} (ev : Evalr ρ) (fuel : Nat) (st : St ρ) (ks : Nodes) (evs : List Ev)
    (bb : Option Gen.BoundingBox) (hst : StateNames st) (hks : DocNames ks)
    (h : (transformDoc ev fuel st ks).2.2 = .ok (evs, bb)) : NamesOk evs :=
  transformDoc_namesOk ev fuel st ks evs bb hst hks h

/-- **what the transformer generates is well-formed and a fixed point — hypotheses on the input only**: for every
    document tree whose elements have unique attribute names (no `class` among them) and XML Names, every
    evaluator, every initial state without templates and without stored defaults, every fuel and every successful result -/
theorem transform_output_wellformed_and_fixed {ρ : Type} (ev : Evalr ρ) (fuel : Nat) (st : St ρ) (ks : Nodes)
    (evs : List Ev) (bb : Option Gen.BoundingBox) (hst : st.originals = []) (hdf : NoDefaults st)
    (hks : NodesT InputElemOk ks)
    (h : (transformDoc ev fuel st ks).2.2 = .ok (evs, bb)) :
    Spec.wfContent (write evs) = true ∧ passThroughW (write evs) = some (write evs) :=
  transformDoc_wellformed_fixed_of_input' ev fuel st ks evs bb hst hdf hks h

/-- **a whole successful run, strict form**: `transformDoc` succeeds, the events to be written (`finalEvents`: the
    pass-through of real SVG as it is, anything else after the root rewrite `postprocess`) exist and the guarded
    writer returns a text — then the text is strictly well-formed XML content and a fixed point of
    read-then-write. Hypotheses on the input tree and the initial state only. -/
theorem transform_written_wellformed_strict_and_fixed {ρ : Type} (ev : Evalr ρ) (fuel : Nat) (st st' : St ρ)
    (ks : Nodes) (real : Bool) (evs fin : List Ev) (bb : Option Gen.BoundingBox) (cfg : Doc.RootCfg) (out : Str)
    (hst : st.originals = []) (hdf : NoDefaults st) (hks : NodesT InputElemOk ks)
    (h : transformDoc ev fuel st ks = (real, st', .ok (evs, bb)))
    (hf : finalEvents cfg real evs bb = some fin) (hw : writeChecked fin = some out) :
    Spec.wfContentStrict out = true ∧ passThroughW out = some out :=
  transformDoc_written_strict ev fuel st st' ks real evs fin bb cfg out hst hdf hks h hf hw

instance (e : Elem) : Decidable (InputElemOk e) := by
  unfold InputElemOk UStrong Attrs.NodupKeys; infer_instance

/-- the hypotheses hold of a concrete document (`Ctl.demoDoc`: a group, a shape with a two-line text, a comment) … -/
theorem demo_input_ok : NodesT InputElemOk demoDoc := by
  simp only [demoDoc, NodesT, NodeT, and_true]
  decide +kernel

/-- … so whatever the model generates for it is well-formed and a fixed point (instance of the theorem) … -/
example (evs : List Ev) (bb : Option Gen.BoundingBox)
    (h : (transformDoc simpleEvalr 40 { rng := 0, scopes := [{}] } demoDoc).2.2 = .ok (evs, bb)) :
    Spec.wfContent (write evs) = true ∧ passThroughW (write evs) = some (write evs) :=
  transform_output_wellformed_and_fixed _ _ _ _ evs bb rfl (by simp [NoDefaults]) demo_input_ok h

/-- … and it does generate something: the run succeeds with this text, which the recogniser accepts by evaluation too -/
example : write demoEvs =
    cs!"<g id=\"a\"><rect x=\"0\" y=\"0\" width=\"4\" height=\"2\"/>\n<text x=\"2\" y=\"1\" class=\"d-text\">\n<tspan x=\"2\" dy=\"-0.525em\">hi</tspan><tspan x=\"2\" dy=\"1.05em\">yo</tspan>\n</text>\n<!--c--></g>" ∧
    Spec.wfContent (write demoEvs) = true := by decide +kernel

/-- … also after the root rewrite and through the guarded writer: the instance of the strict theorem for the
    demo document -/
example (real : Bool) (st' : St Nat) (evs fin : List Ev) (bb : Option Gen.BoundingBox) (cfg : Doc.RootCfg) (out : Str)
    (h : transformDoc simpleEvalr 40 { rng := 0, scopes := [{}] } demoDoc = (real, st', .ok (evs, bb)))
    (hf : finalEvents cfg real evs bb = some fin) (hw : writeChecked fin = some out) :
    Spec.wfContentStrict out = true ∧ passThroughW out = some out :=
  transform_written_wellformed_strict_and_fixed _ _ _ st' _ real evs fin bb cfg out rfl (by simp [NoDefaults]) demo_input_ok h hf hw

/-! ### the root rewrite -/

/-- **`postprocess` keeps a balanced list balanced, in every case** (root a start tag; an emptied `<svg/>` inside
    another element, closed at once; an emptied `<svg/>` at the top level, closed at the end of the document —
    there the events before it are closed by themselves because their open depth is not positive) -/
theorem postprocess_keeps_nesting (cfg : Doc.RootCfg) (evs out : List Ev) (bb : Option Gen.BoundingBox)
    (hb : check [] evs = some []) (hp : Doc.postprocess cfg evs bb = some out) : check [] out = some [] :=
  postprocess_check cfg evs out bb hb hp

/-- outside the last case the rewrite is invisible to the checker, balanced list or not: same verdict, same stack,
    from every stack (in the last case this fails for unbalanced lists: `<svg/><g>` ↦ `<svg …><g></svg>`) -/
theorem postprocess_invisible_to_checker (cfg : Doc.RootCfg) (evs out : List Ev) (bb : Option Gen.BoundingBox)
    (hp : Doc.postprocess cfg evs bb = some out)
    (hcase : ∀ pre root remain, Doc.partitionSvg evs = (pre, some (root, true), remain) → 0 < Doc.openDepth pre) :
    ∀ stk, check stk out = check stk evs := postprocess_check_eq cfg evs out bb hp hcase

/-- the fact behind the top-level case: the checker's stack grows by exactly the open depth -/
theorem checker_stack_is_open_depth (l : List Ev) (stk s : List Str) (h : check stk l = some s) :
    (s.length : Int) = stk.length + Doc.openDepth l := check_depth l stk s h

/-- … and the other hypotheses of well-formedness: the root's attribute names are the author's or one of
    `version xmlns id style width height viewBox`, and they stay unique -/
theorem postprocess_keeps_names_and_keys (cfg : Doc.RootCfg) (evs out : List Ev) (bb : Option Gen.BoundingBox)
    (hp : Doc.postprocess cfg evs bb = some out) (hn : NamesOk evs) (hu : AttrsUnique evs) :
    NamesOk out ∧ AttrsUnique out := postprocess_preserves cfg evs out bb hp hn hu

/-- the three shapes, each accepted by the strict recogniser:
    nested (fix 229d1ae) `<g><svg/></g>` ↦ `<g><svg …></svg></g>` -/
theorem postprocess_nested_empty_root_closed :
    ∃ out, Doc.postprocess {} [.start { name := ['g'], attrs := [] }, .empty { name := cs!"svg", attrs := [] },
        .end_ ['g']] none = some out ∧ check [] out = some [] ∧
      write out = cs!"<g><svg version=\"1.1\" xmlns=\"http://www.w3.org/2000/svg\"></svg></g>" ∧
      Spec.wfContentStrict (write out) = true := by
  obtain ⟨out, h1, h2, h3⟩ := postprocess_nested_empty_root
  exact ⟨out, h1, h2, h3, by rw [h3]; decide +kernel⟩

/-- top level with trailing text: `<svg/>⏎` ↦ `<svg …>⏎</svg>` -/
theorem postprocess_empty_root_encloses_tail :
    ∃ out, Doc.postprocess {} [.empty { name := cs!"svg", attrs := [] }, .text ['\n']] none = some out ∧
      check [] out = some [] ∧
      write out = cs!"<svg version=\"1.1\" xmlns=\"http://www.w3.org/2000/svg\">\n</svg>" ∧
      Spec.wfContentStrict (write out) = true := by
  obtain ⟨out, h1, h2, h3⟩ := postprocess_empty_root_trailing_text
  exact ⟨out, h1, h2, h3, by rw [h3]; decide +kernel⟩

/-- unclosed root (fix 52b6ad7; the reader turns never-closed elements into empty ones):
    `[<svg/>, <g/>, <rect/>]` ↦ `<svg …><g/><rect/></svg>` — no junk after the root -/
theorem postprocess_unclosed_root_encloses_document :
    ∃ out, Doc.postprocess {} [.empty { name := cs!"svg", attrs := [] }, .empty { name := ['g'], attrs := [] },
        .empty { name := cs!"rect", attrs := [] }] none = some out ∧ check [] out = some [] ∧
      write out = cs!"<svg version=\"1.1\" xmlns=\"http://www.w3.org/2000/svg\"><g/><rect/></svg>" ∧
      Spec.wfContentStrict (write out) = true := by
  obtain ⟨out, h1, h2, h3⟩ := postprocess_unclosed_root
  exact ⟨out, h1, h2, h3, by rw [h3]; decide +kernel⟩

end Svgdx.Props.C02

#print axioms Svgdx.Props.C02.output_wellformed
#print axioms Svgdx.Props.C02.output_wellformed_and_fixed
#print axioms Svgdx.Props.C02.output_wellformed_strict
#print axioms Svgdx.Props.C02.emitted_attributes_unique
#print axioms Svgdx.Props.C02.reader_elements_unique
#print axioms Svgdx.Props.C02.emitted_names_ok
#print axioms Svgdx.Props.C02.transform_output_wellformed_and_fixed
#print axioms Svgdx.Props.C02.demo_input_ok
#print axioms Svgdx.Props.C02.postprocess_keeps_nesting
#print axioms Svgdx.Props.C02.postprocess_invisible_to_checker
#print axioms Svgdx.Props.C02.checker_stack_is_open_depth
#print axioms Svgdx.Props.C02.postprocess_keeps_names_and_keys
#print axioms Svgdx.Props.C02.postprocess_nested_empty_root_closed
#print axioms Svgdx.Props.C02.postprocess_empty_root_encloses_tail
#print axioms Svgdx.Props.C02.postprocess_unclosed_root_encloses_document
#print axioms Svgdx.Props.C02.guard_is_char_production
#print axioms Svgdx.Props.C02.transform_written_wellformed_strict_and_fixed
