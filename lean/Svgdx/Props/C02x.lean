/-
  C02, the reader's side (Svgdx/Xml/RefCheck.lean, Svgdx/Proofs/RefCheck.lean): content that is copied to the
  output AS WRITTEN (real-SVG pass-through, text-only elements) carries only well-formed references, because
  `InputList::from_reader` / `check_doctype_entities` refuse every Text, Start and Empty event on which
  `invalid_reference` answers `Some`. The model `Xml.invalidReference` / `Xml.isEntityName` follows
  `src/events.rs` branch for branch (driver op `ref_check`, compared with the code on random strings).
  The specification (`RefsOk`, `CharRef`, `EntityRef`, `Reference`, `Name`, `LegalChar`) is written from the
  productions [66]-[68], [2], [4]-[5] of XML 1.0 and not from the checker.
   * `check_sound` (a): `invalidReference s false = none → RefsOk s` - the text is a sequence of characters other
     than `&` and of References `&lt;` `&gt;` `&amp;` `&apos;` `&quot;`, `&#` [0-9]+ `;`, `&#x` [0-9a-fA-F]+ `;`
     whose value is an XML Char; `check_every_amp`: every `&`, whatever stands before it, begins one;
   * `check_complete` (b): `RefsOk s → invalidReference s false = none` - no false rejection; `check_iff`;
   * `check_iff_doctype`, `doctype_allows_name`, `doctype_weaker`: after a DOCTYPE exactly `&Name;` for every
     Name is allowed in addition (`isEntityName_iff`: `is_entity_name` IS production [5]);
   * `wellFormed_iff`: the flag `well_formed` of the code is production [67] between `&` and `;`;
     `parseU32_eq`: empty string and `u32` overflow are the only failures of the number parse;
   * `offending_shape`, `offending_infix` (c): the reported text is a contiguous part of the input that begins
     with `&` and is `&body;` up to the first `;`, or `&` and at most 12 further characters when no `;` follows;
   * bridge to the independent recogniser `Svgdx.Xml.Spec`: `spec_refsOk_of_check` (check passes ⇒
     `Spec.refsOk`), `charDataOk_of_check` / `acc_raw_text` (CharData [14]; that `]]>` does not occur is NOT
     checked by `invalid_reference` and stays a hypothesis), `attValue_of_check` (AttValue [10], under: no `<`,
     no quote); `refsOk_split` / `check_between`: an attribute value cut out between its quotes from a start
     tag that passed as a whole passes on its own; `spec_weaker_instance`: the converse fails (`&#0;`), the
     recogniser does not look at the value of a character reference;
   * `inst_*` (d): worked INSTANCES (one input each, by kernel evaluation), among them `&#4294967361;`
     (2^32 + 65, refused: the parse does not wrap), `&#X41;`, `&#x;`, `&#+65;`, `&foo;` with and without DOCTYPE.
  No input was found on which the code accepts what XML forbids or refuses what XML allows (it is the
  equivalence `check_iff`); what it does not look at: `]]>` in character data, `<` in an attribute value, and -
  with a DOCTYPE - whether the name is in fact declared there. The first two are exactly the hypotheses the
  bridge lemmas keep, and nothing else in the reader discharges them: the real-SVG documents
  `<svg xmlns="http://www.w3.org/2000/svg" width="1" height="1"><text x="1" y="1">a ]]> b</text></svg>` and
  `<svg xmlns="http://www.w3.org/2000/svg" width="1" height="1"><rect x="<" y="1" width="1" height="1"/></svg>`
  are copied as written (exit 0) and expat refuses both outputs (in an svgdx document both are re-escaped).
-/
import Svgdx.Proofs.RefCheck

#print axioms Svgdx.Props.C02Ref.check_sound
#print axioms Svgdx.Props.C02Ref.check_every_amp
#print axioms Svgdx.Props.C02Ref.check_complete
#print axioms Svgdx.Props.C02Ref.check_iff
#print axioms Svgdx.Props.C02Ref.check_iff_doctype
#print axioms Svgdx.Props.C02Ref.doctype_allows_name
#print axioms Svgdx.Props.C02Ref.doctype_weaker
#print axioms Svgdx.Props.C02Ref.isEntityName_iff
#print axioms Svgdx.Props.C02Ref.wellFormed_iff
#print axioms Svgdx.Props.C02Ref.parseU32_eq
#print axioms Svgdx.Props.C02Ref.offending_shape
#print axioms Svgdx.Props.C02Ref.offending_infix
#print axioms Svgdx.Props.C02Ref.spec_refsOk_of_check
#print axioms Svgdx.Props.C02Ref.charDataOk_of_check
#print axioms Svgdx.Props.C02Ref.acc_raw_text
#print axioms Svgdx.Props.C02Ref.attValue_of_check
#print axioms Svgdx.Props.C02Ref.refsOk_split
#print axioms Svgdx.Props.C02Ref.check_between
#print axioms Svgdx.Props.C02Ref.spec_weaker_instance
#print axioms Svgdx.Props.C02Ref.inst_bare_amp
#print axioms Svgdx.Props.C02Ref.inst_no_semicolon
#print axioms Svgdx.Props.C02Ref.inst_twelve
#print axioms Svgdx.Props.C02Ref.inst_dec_plus
#print axioms Svgdx.Props.C02Ref.inst_hex_plus
#print axioms Svgdx.Props.C02Ref.inst_hex_empty
#print axioms Svgdx.Props.C02Ref.inst_dec_empty
#print axioms Svgdx.Props.C02Ref.inst_surrogate
#print axioms Svgdx.Props.C02Ref.inst_above_range
#print axioms Svgdx.Props.C02Ref.inst_u32_overflow
#print axioms Svgdx.Props.C02Ref.inst_upper_x
#print axioms Svgdx.Props.C02Ref.inst_leading_zeros
#print axioms Svgdx.Props.C02Ref.inst_last_char
#print axioms Svgdx.Props.C02Ref.inst_three_refs
#print axioms Svgdx.Props.C02Ref.inst_foo_no_doctype
#print axioms Svgdx.Props.C02Ref.inst_foo_doctype
#print axioms Svgdx.Props.C02Ref.inst_not_name_doctype
