/-
  C02, the reader's side (Svgdx/Xml/RefCheck.lean, Svgdx/Proofs/RefCheck.lean): content that is copied to the
  output AS WRITTEN (real-SVG pass-through, text-only elements) carries only well-formed references, because
  `InputList::from_reader` / `check_doctype_entities` refuse every Text, Start and Empty event on which
  `invalid_reference` answers `Some`. The model `Xml.invalidReference` / `Xml.isEntityName` follows
  `src/events.rs` branch for branch (driver op `ref_check`, compared with the code on random strings).
  The specification (`RefsOk`, `CharRef`, `EntityRef`, `Reference`, `Name`, `LegalChar`) is written from the
  productions [66]-[68], [2], [4]-[5] of XML 1.0 and not from the checker.
   * `check_sound` (a): `invalidReference s false = none → RefsOk s` - the text is a sequence of characters other
     than `&` and of References `&lt;` `&gt;` `&amp;` `&apos;` `&quot;`, `&#` [0-9]+ `;`, `&#x` [0-9a-fA-F]+ `;`
     whose value is an XML Char; `check_every_amp`: every `&`, whatever stands before it, begins one;
   * `check_complete` (b): `RefsOk s → invalidReference s false = none` - no false rejection; `check_iff`;
   * `check_iff_doctype`, `doctype_allows_name`, `doctype_weaker`: after a DOCTYPE exactly `&Name;` for every
     Name is allowed in addition (`isEntityName_iff`: `is_entity_name` IS production [5]);
   * `wellFormed_iff`: the flag `well_formed` of the code is production [67] between `&` and `;`;
     `parseU32_eq`: empty string and `u32` overflow are the only failures of the number parse;
   * `offending_shape`, `offending_infix` (c): the reported text is a contiguous part of the input that begins
     with `&` and is `&body;` up to the first `;`, or `&` and at most 12 further characters when no `;` follows;
   * bridge to the independent recogniser `Svgdx.Xml.Spec`: `spec_refsOk_of_check` (check passes ⇒
     `Spec.refsOk`), `charDataOk_of_check` / `acc_raw_text` (CharData [14]; that `]]>` does not occur is NOT
     checked by `invalid_reference` and stays a hypothesis), `attValue_of_check` (AttValue [10], under: no `<`,
     no quote); `refsOk_split` / `check_between`: an attribute value cut out between its quotes from a start
     tag that passed as a whole passes on its own; `spec_weaker_instance`: the converse fails (`&#0;`), the
     recogniser does not look at the value of a character reference;
   * `inst_*` (d): worked INSTANCES (one input each, by kernel evaluation), among them `&#4294967361;`
     (2^32 + 65, refused: the parse does not wrap), `&#X41;`, `&#x;`, `&#+65;`, `&foo;` with and without DOCTYPE.
   * the WHOLE per-event check of `from_reader` (`Xml.readerAccepts`, driver op `reader_accepts`: the reference
     check, then `]]>` refused in a Text event and `<` in a Start / Empty event - the repair of the two findings
     below): `reader_text_iff` / `reader_tag_iff` (and `_doctype`): accepted ⇔ `RefsOk` and no `]]>` / no `<`;
     `charData_of_reader`: an accepted Text event satisfies `Spec.charDataOk` with NO further hypothesis
     (`acc_reader_text` in the shape of `acc_text`); `attValue_of_reader`: in an accepted tag, a value standing
     between two quotes `q` satisfies `Spec.attValue q`, the one hypothesis left being that the value holds no
     `q` itself (quick-xml ends the value at the first `q`); `value_of_reader`; completeness:
     `reader_accepts_charData` ([14] proper: no `&`, no `]]>` ⇒ accepted), `reader_accepts_refs`;
     `charDataOk_not_enough_instance`: completeness from `Spec.charDataOk` alone is FALSE (`&#0;`, `&#xD800;`:
     the recogniser does not apply WFC Legal Character, the reader does); `inst_text_cdend`, `inst_tag_lt`,
     `inst_tag_ok`, `inst_text_gt_ok`: instances.
  No input was found on which the code accepts what XML forbids or refuses what XML allows (it is the
  equivalence `check_iff`); what it does not look at: `]]>` in character data, `<` in an attribute value, and -
  with a DOCTYPE - whether the name is in fact declared there. The first two are exactly the hypotheses the
  bridge lemmas keep, and nothing else in the reader discharges them: the real-SVG documents
  `<svg xmlns="http://www.w3.org/2000/svg" width="1" height="1"><text x="1" y="1">a ]]> b</text></svg>` and
  `<svg xmlns="http://www.w3.org/2000/svg" width="1" height="1"><rect x="<" y="1" width="1" height="1"/></svg>`
  were copied as written (exit 0) and expat refused both outputs (in an svgdx document both are re-escaped);
  repaired since by the stray test that `readerAccepts` mirrors.
-/
/-
  C02, extension (Svgdx/Proofs/ThemeWf.lean, model Svgdx/Theme/Inject.lean): the auto-style block that
  `write_auto_styles` (transform.rs) injects after the root start tag - the part `C02Xml` left to the expat oracle.

  Author input that reaches the CSS text: `background`, `font_family`, the local style id (`svgdx-%08x`, generated)
  and `font_size` (a number; printed, digits / `-` / `.`). None of them is escaped by themes.rs; all of them end up
  inside ONE CData event, and the writer (`OutputList::write_to`, `BytesCData::escaped`, model `Xml.cdataSplit`)
  splits that event at every `]]>`. Class names reach the text only for pattern classes (`d-grid-7`, …), whose
  shape is fixed by `get_spacing`.
   * `fmt_chars`: every character of `format!(tpl, args…)` comes from the template or from an argument;
   * `styles_chars`: for every theme, class list, element list and order of the pattern classes, every character of
     every emitted rule is a `cssCh` character (printable ASCII other than `<`, `>`, `&`, `]`: the generated tables
     of themes.rs, re-checked by evaluation on every run, and printed numbers) or a character of `background`,
     `font_family` or the local id;
   * `styleCData_chars` / `indentEntry_chars`: `indent_all` adds blanks and newlines only;
   * `styleCData_noCDEnd`: the CDATA text contains no `]]>` when none of the three author strings contains `]`
     (or none contains `>`); `style_single_section`: then the writer emits exactly one section holding the text
     unchanged (`cdataSplit_plain`);
   * `styleCData_isChar`: the text consists of XML `Char`s when the author strings do;
   * `styleBlock_wellformed`: the written `<style>` element (text, start tag, debug comment, CDATA, end tag) is
     accepted by `Xml.Spec.wfContent` for ARBITRARY rule texts - no hypothesis on the author strings is needed,
     because the code splits the section; `styleBlock_strict`: and by `wfContentStrict` whenever the writer's
     character guard lets it pass.
  `<defs>` (Svgdx/Proofs/ThemeDefsWf.lean), partial:
   * `fixed_defs_wf` / `arrow_shadow_defs_wf`: the arrow marker and the two shadow filters, i.e. everything
     `arrowDefs` and `shadowDefs` emit for any class list, are accepted by `wfContent` as they stand;
   * `pattern_defs_wf_bare`: so are the pattern definitions of the six bare pattern classes under all six themes,
     and of the spacings 0, 7, 100 of each parameterised class (by evaluation).
  Not proved: a pattern definition for an ARBITRARY accepted class (`d-grid-N`, N <= 100, any spelling `+5`, `007`;
  the only unbounded part is the id, which by `rowClass_chars` consists of letters, digits, `-`, `+`; the texts are
  available in closed form, `patternDef_eq`); that the concatenation `defsBlock` is well-formed; the reader /
  writer pass the definitions go through; and the composition with the rest of the document. These stay with the
  expat oracle of the harness. No input was found on which the binary writes a non-well-formed auto-style block
  (`]]>`, `</style>`, `<`, `&`, CR / LF in background and font-family, on the command line and in `<config>`).
-/
/-
  C02, extension 2 (Svgdx/Proofs/ThemeDefsBlock.lean): the `<defs>` block and the whole text `write_auto_styles`
  injects (model Svgdx/Theme/Inject.lean) are well-formed content, for every theme, class list, element list and
  author string - by structure, not by evaluation.

  A definition text is described by a piece list (`Piece`: white space / start tag / empty-element tag / end tag,
  tags as themes.rs writes them, including the blank before `>` of `<pattern … >`); `DefOk d`: `d` is the text of a
  balanced piece list with XML Names, unique attribute names, attribute values free of `< > & ' "` and line ends,
  ending in an end tag.  `WAcc stk s`: the recogniser accepts `s` with the elements `stk` open, also behind
  white space (what "the rest of the document is accepted" has to mean for something to be put in front of it).
   * `acc_rawtag`, `wacc_pieces`, `defOk_wf`: a `DefOk` text is accepted by `Xml.Spec.wfContent`;
   * (1) `patternPieces_for`, `patternDef_ok`, `pattern_defs_wf`: the pattern definition for an ARBITRARY class the
     builder accepts (bare class or `prefix-N` in any spelling `get_spacing` takes: `+5`, `007`), any theme, ANY
     spacing number (no bound is needed), from the closed form `patternDef_eq` and the character facts
     `ptnId_valCh` (letters, digits, `-`, `+`), `val_nat`, `val_fstr`, `theme_stroke_valCh`, `pattern_val_facts`;
     `fixed_defs_ok`: the arrow marker and the two shadow filters; `build_defs_ok` / `build_defs_wf`: every element
     of `(buildWith order cfg cs es).1`;
   * `indentEntry_eq`: `indent_all` on a text without CR that does not end in a newline = indentation in front and
     behind every newline; `indentEntry_pieces`: on a piece list only the white-space pieces change;
   * (2) `defsBlock_wacc`, `defsBlock_wellformed`, `build_defsBlock_wellformed`;
   * (3) `styleBlock_wacc` (arbitrary rule texts), `autoStyleText_wacc`, `autoStyleText_wellformed`,
     `autoStyles_wellformed`;
   * (4) `inject_after_root`, `inject_after_root_wf`: root start tag ++ injected text ++ rest is accepted (by
     `wfContent` at the top level) whenever the rest is accepted inside the root (`WAcc [root] rest`), together with
     root start tag ++ rest.
  Hypothesis of (2) / (3) on the definitions is `DefOk`, not bare `wfContent`: `indent_all` rewrites the text
  (blanks behind every newline, CR before LF dropped), and the recogniser is not invariant under that for arbitrary
  well-formed text in any way that was proved here; for the definitions themes.rs can produce `DefOk` is a theorem.
  Not proved: (4) from the bare hypothesis `wfContent (root start tag ++ rest)` (needs the inversion of the
  recogniser at the end of a start tag and its monotonicity in the fuel); that `write remain` of a balanced event
  list satisfies `WAcc [svg]`; the reader / writer pass the definitions go through in the code (`defsBlock` takes
  them verbatim; the stream `auto_style_text` compares with the binary).
-/
/-
  C02, extension 3 (Svgdx/Proofs/ThemeCompose.lean): the composition - the document text WITH the auto-style block
  behind the root start tag is accepted by the recogniser `Xml.Spec.wfContent`, end to end.

  The model's `Doc.postprocess` is `Transformer::postprocess` with auto-styles OFF (it has no switch), and the code
  writes the parts by separate `write_to` calls. The statements are about the composed text
      write pre ++ renderEv (.start root) ++ autoStyles debug tcfg classes elements ++ write post
  where `pre ++ .start root :: post` is the event list `postprocess` returns; `write_split` shows that WITHOUT the
  injected text this is exactly `write fin`, the text `transform_written_wellformed_strict_and_fixed` speaks about.
   * `acc_events_rest`: the stack-indexed acceptance lemma `XmlSpec.acc_events` with a rest behind the events;
   * `wacc_write`: `write evs` of an event list with XML Names and unique attributes that closes the open elements
     `stk` (`check stk evs = some []`) satisfies `WAcc stk` - the hypothesis `inject_after_root_wf` was left with,
     obtained directly from `acc_events` (no inversion of the recogniser, no fuel monotonicity);
   * `coalesce_split`, `write_split`: the writer does not look across a markup event;
   * `autoStyles_injectable`: `autoStyles …` of every theme / author string / class list / element list can stand in
     front of accepted content, below any open elements (`Injectable`);
   * `inject_wellformed`: `pre ++ .start root :: post` balanced, XML Names, unique attribute names, `inj` injectable
     ==> `wfContent (write pre ++ (renderEv (.start root) ++ (inj ++ write post)))` - at ANY start event;
   * `postprocess_with_autostyles`: hypotheses `Balanced evs`, `NamesOk evs`, `AttrsUnique evs`,
     `Doc.postprocess cfg evs bb = some fin`, `Doc.partitionSvg evs = (pre, some (root, emp), remain)`; conclusion:
     `fin = pre ++ newRoot root a :: post` with `post` = `closeEvs emp ++ remain` or `remain ++ closeEvs emp`,
     `write fin` = the composed text without injection, and the composed text with `autoStyles debug tcfg classes
     elements` is accepted, for all `debug tcfg classes elements`;
   * `transformDoc_written_with_autostyles`: the same from the hypotheses of
     `transform_written_wellformed_strict_and_fixed` on the INPUT (`st.originals = []`, `NoDefaults st`,
     `NodesT InputElemOk ks`, `transformDoc … = (false, st', .ok (evs, bb))`, `finalEvents cfg false evs bb = some fin`)
     plus the root having been found (`partitionSvg`).
  Stated for ALL class / element lists, hence for the ones `write_auto_styles` collects (root classes and the
  classes / names of the remaining events). Not covered: the two debug comments (`Generated by`, `Config`) the
  code writes between the root and the block with `--debug` (not in `Doc.postprocess`); the strict (`Char`) form -
  the injected text consists of XML `Char`s when the author strings do (`styleCData_isChar`), the definitions are
  ASCII, but `wfContentStrict` of the composed text is not stated; the reader / writer pass of the definitions.
-/
import Svgdx.Proofs.RefCheck
import Svgdx.Proofs.ThemeWf
import Svgdx.Proofs.ThemeDefsWf
import Svgdx.Proofs.ThemeDefsBlock
import Svgdx.Proofs.ThemeCompose

#print axioms Svgdx.Props.C02Ref.check_sound
#print axioms Svgdx.Props.C02Ref.check_every_amp
#print axioms Svgdx.Props.C02Ref.check_complete
#print axioms Svgdx.Props.C02Ref.check_iff
#print axioms Svgdx.Props.C02Ref.check_iff_doctype
#print axioms Svgdx.Props.C02Ref.doctype_allows_name
#print axioms Svgdx.Props.C02Ref.doctype_weaker
#print axioms Svgdx.Props.C02Ref.isEntityName_iff
#print axioms Svgdx.Props.C02Ref.wellFormed_iff
#print axioms Svgdx.Props.C02Ref.parseU32_eq
#print axioms Svgdx.Props.C02Ref.offending_shape
#print axioms Svgdx.Props.C02Ref.offending_infix
#print axioms Svgdx.Props.C02Ref.spec_refsOk_of_check
#print axioms Svgdx.Props.C02Ref.charDataOk_of_check
#print axioms Svgdx.Props.C02Ref.acc_raw_text
#print axioms Svgdx.Props.C02Ref.attValue_of_check
#print axioms Svgdx.Props.C02Ref.refsOk_split
#print axioms Svgdx.Props.C02Ref.check_between
#print axioms Svgdx.Props.C02Ref.spec_weaker_instance
#print axioms Svgdx.Props.C02Ref.inst_bare_amp
#print axioms Svgdx.Props.C02Ref.inst_no_semicolon
#print axioms Svgdx.Props.C02Ref.inst_twelve
#print axioms Svgdx.Props.C02Ref.inst_dec_plus
#print axioms Svgdx.Props.C02Ref.inst_hex_plus
#print axioms Svgdx.Props.C02Ref.inst_hex_empty
#print axioms Svgdx.Props.C02Ref.inst_dec_empty
#print axioms Svgdx.Props.C02Ref.inst_surrogate
#print axioms Svgdx.Props.C02Ref.inst_above_range
#print axioms Svgdx.Props.C02Ref.inst_u32_overflow
#print axioms Svgdx.Props.C02Ref.inst_upper_x
#print axioms Svgdx.Props.C02Ref.inst_leading_zeros
#print axioms Svgdx.Props.C02Ref.inst_last_char
#print axioms Svgdx.Props.C02Ref.inst_three_refs
#print axioms Svgdx.Props.C02Ref.inst_foo_no_doctype
#print axioms Svgdx.Props.C02Ref.inst_foo_doctype
#print axioms Svgdx.Props.C02Ref.inst_not_name_doctype
#print axioms Svgdx.Props.C02Ref.reader_text_iff
#print axioms Svgdx.Props.C02Ref.reader_tag_iff
#print axioms Svgdx.Props.C02Ref.reader_text_iff_doctype
#print axioms Svgdx.Props.C02Ref.reader_tag_iff_doctype
#print axioms Svgdx.Props.C02Ref.charData_of_reader
#print axioms Svgdx.Props.C02Ref.acc_reader_text
#print axioms Svgdx.Props.C02Ref.attValue_of_reader
#print axioms Svgdx.Props.C02Ref.value_of_reader
#print axioms Svgdx.Props.C02Ref.reader_accepts_charData
#print axioms Svgdx.Props.C02Ref.reader_accepts_refs
#print axioms Svgdx.Props.C02Ref.charDataOk_not_enough_instance
#print axioms Svgdx.Props.C02Ref.inst_text_cdend
#print axioms Svgdx.Props.C02Ref.inst_tag_lt
#print axioms Svgdx.Props.C02Ref.inst_tag_ok
#print axioms Svgdx.Props.C02Ref.inst_text_gt_ok
#print axioms Svgdx.Theme.fmt_chars
#print axioms Svgdx.Theme.table_css
#print axioms Svgdx.Theme.colour_css
#print axioms Svgdx.Theme.theme_css
#print axioms Svgdx.Theme.display_numChar
#print axioms Svgdx.Theme.styles_chars
#print axioms Svgdx.Theme.indentEntry_chars
#print axioms Svgdx.Theme.styleCData_chars
#print axioms Svgdx.Theme.styleCData_build_chars
#print axioms Svgdx.Theme.cdataSplit_plain
#print axioms Svgdx.Theme.styleCData_noCDEnd
#print axioms Svgdx.Theme.style_single_section
#print axioms Svgdx.Theme.styleCData_isChar
#print axioms Svgdx.Theme.styleBlock_wellformed
#print axioms Svgdx.Theme.styleBlock_strict
#print axioms Svgdx.Theme.fixed_defs_wf
#print axioms Svgdx.Theme.arrow_shadow_defs_wf
#print axioms Svgdx.Theme.pattern_defs_wf_bare
#print axioms Svgdx.Theme.acc_rawtag
#print axioms Svgdx.Theme.wacc_pieces
#print axioms Svgdx.Theme.defOk_wf
#print axioms Svgdx.Theme.fixed_defs_ok
#print axioms Svgdx.Theme.pattern_val_facts
#print axioms Svgdx.Theme.theme_stroke_valCh
#print axioms Svgdx.Theme.ptnId_valCh
#print axioms Svgdx.Theme.patternPieces_render
#print axioms Svgdx.Theme.patternPieces_for
#print axioms Svgdx.Theme.patternDef_ok
#print axioms Svgdx.Theme.pattern_defs_wf
#print axioms Svgdx.Theme.build_defs_ok
#print axioms Svgdx.Theme.build_defs_wf
#print axioms Svgdx.Theme.indentEntry_eq
#print axioms Svgdx.Theme.indentEntry_pieces
#print axioms Svgdx.Theme.indentAll_wacc
#print axioms Svgdx.Theme.defsBlock_wacc
#print axioms Svgdx.Theme.defsBlock_wellformed
#print axioms Svgdx.Theme.build_defsBlock_wellformed
#print axioms Svgdx.Theme.styleBlock_wacc
#print axioms Svgdx.Theme.autoStyleText_wacc
#print axioms Svgdx.Theme.autoStyleText_wellformed
#print axioms Svgdx.Theme.autoStyles_wellformed
#print axioms Svgdx.Theme.inject_after_root
#print axioms Svgdx.Theme.inject_after_root_wf
#print axioms Svgdx.Theme.acc_events_rest
#print axioms Svgdx.Theme.wacc_write
#print axioms Svgdx.Theme.coalesce_split
#print axioms Svgdx.Theme.write_split
#print axioms Svgdx.Theme.autoStyles_injectable
#print axioms Svgdx.Theme.check_stack_names
#print axioms Svgdx.Theme.inject_wellformed
#print axioms Svgdx.Theme.postprocess_with_autostyles
#print axioms Svgdx.Xml.transformDoc_written_with_autostyles
