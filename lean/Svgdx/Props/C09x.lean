/-
  C09, extension (Svgdx/Proofs/RelPlace.lean): the STRING / ATTRIBUTE level of relative positioning - what
  the hand model of `split_relspec`, `eval_rel_position`, `eval_pos_attr`, `eval_size_attr`,
  `resolve_size_delta` (element.rs) does on the relspec strings, as whole-function equations joined to the
  numeric theorems of Props/C09. References are written `refStr r` (`#id` with `IdOk`: `[A-Za-z_][A-Za-z0-9_-]*`,
  or `^`); the referenced element is `c.get r = some refEl` with `c.bb refEl = .ok (some refBox)`.
   * `extractElref_refStr`, `splitRelspec_ref` / `_missing` / `_noref` / `_error_only_reference`: `split_relspec`
     reads the reference back, fails with the reference error exactly when the element is not in the context,
     hands anything that is not a reference back untouched, and has no other error;
   * (a) `evalRelPosition_dir`: `xy = ref|D tail` (`D` = h H v V, `tail` empty or white space + gap; `gapOf_nil`,
     `gapOf_word`: no gap is 0, one number word is that number) - the element loses `xy` and is `place_at`-ed
     at `Elem.dirPlace D refBox tw th gap`, `(tw, th)` its `size` (0 × 0 without); `parseDirSpec_iff`: h H v V
     are the only directions. `dir_places_box`: for a box-like element (rect, box, image, svg, foreignObject)
     with literal width / height the call succeeds, `x` / `y` are the printed corner, all other attributes
     are unchanged, and - if the two corner coordinates satisfy `strp (fstr v) = some v` - the element's box
     IS `Props.C09.placed …`, to which `dir_h … dir_size` apply. Both `#id` and `^`;
   * (b) `evalPosAttr_at`, `evalPosAttr_at_d`, `evalPosAttr_plain`: `x="#id@loc"`, `"#id@loc d"`, `"#id"` for
     every position attribute and every location that parses (`parseLocSpec_named`: the nine names,
     `parseLocSpec_edge`: `t: r: b: l:` with any length): x-like attributes get the printed x of
     `refBox.locspec loc` plus the offset, y-like the y; `splitCompoundAttr_ref_alone/_one/_two`:
     `xy="#id@loc dx dy"` gives x `#id@loc dx` and y `#id@loc dy`; `xyLoc_axes`, `cxy_axes`: whatever
     `xy-loc` says, `xy` is written into an x-like and a y-like attribute; `evalPosAttr_xy_at`: the pair
     evaluates to `refBox.locspec loc + (dx, dy)` - with `Props.C09.xy_loc_anchor_on_target` /
     `default_and_centre_anchor` the anchor (top-left / xy-loc corner / centre) lands there;
     `evalRelPosition_at`: `eval_rel_position` leaves such an `xy` alone;
   * (c) `evalPosAttr_scalar(_d)`: `x="#id~x2"`, `"#id~w 50%"` give the printed `refBox.scalarspec`, adjusted;
     `evalSizeAttr_ref` (whole function on a reference), `evalSizeAttr_same` (`wh="#id"`), `_delta`
     (`"#id 50%"`, `"#id 2 3"` per axis), `_scalar` (`width="#id~h"`); `resolveSizeDelta_dw/_dh/_none`: `dw` /
     `dh` are removed and `width` / `height` set to the length applied to `baseWH` (literal width / height;
     2r for a circle, 2rx / 2ry for an ellipse);
   * (d) `evalPosAttr_cases`, `evalSizeAttr_cases`, `evalRelPosition_cases`: every outcome. A value is evaluated
     iff the attribute name is a scalar name (always, from `eval_rel_attributes`: `isPosAttr_scalar`,
     `isSizeAttr_scalar`) and the value READS as a reference; then a missing element is the reference error
     (`evalPosAttr_missing`, `evalSizeAttr_missing`, `evalRelPosition_missing`), never a default position.
     Left unevaluated, exactly: values `extract_elref` rejects (`#1z`, `#`, leading space), in
     `eval_rel_position` also a reference without box or not followed by `|` (handled later by the compound
     path); `evalRelPosition_bad_dir`: `|x` is InvalidData.
  The main theorems are instantiated on a concrete context in the proofs file (hypotheses by `decide`), and whole
  `resolve_position` runs (`decide +kernel`) cover `xy-loc`, `cxy`, edge locations, `^`, `wh="#a 50%"`, `dw`.
  NOT proved: (1) `strp (fstr v) = some v` is a hypothesis (true on the 3-decimal grid; the library has no
  round-trip lemma); (2) the fold `eval_rel_attributes` and `expand_compound_pos` as whole functions on an
  arbitrary attribute list (their per-attribute content is (b)/(c)/(d); the joints are the `example`s);
  (3) `size` only for box-like elements (`size_boxLike`), the general statement takes `e.size c` as given;
  (4) `use` elements in `place_at`; text-anchor derivation.
  Findings (model = code, shown as `example`s): a circle with `r` ignores `dw`/`dh` in the result; a size
  attribute ignores a non-`~` first word and a non-length delta (`width="#a@tl"`, `"#a junk"`); `xy="#1z|h"` is
  copied into x / y as text.
-/
import Svgdx.Proofs.RelPlace

#print axioms Svgdx.RelPlace.extractElref_refStr
#print axioms Svgdx.RelPlace.splitRelspec_ref
#print axioms Svgdx.RelPlace.splitRelspec_missing
#print axioms Svgdx.RelPlace.splitRelspec_noref
#print axioms Svgdx.RelPlace.splitRelspec_error_only_reference
#print axioms Svgdx.RelPlace.parseDirSpec_iff
#print axioms Svgdx.RelPlace.gapOf_nil
#print axioms Svgdx.RelPlace.gapOf_word
#print axioms Svgdx.RelPlace.size_boxLike
#print axioms Svgdx.RelPlace.bb_plain
#print axioms Svgdx.RelPlace.bbox_boxLike
#print axioms Svgdx.RelPlace.evalRelPosition_dir
#print axioms Svgdx.RelPlace.dir_places_box
#print axioms Svgdx.RelPlace.evalPosAttr_at
#print axioms Svgdx.RelPlace.evalPosAttr_at_d
#print axioms Svgdx.RelPlace.evalPosAttr_plain
#print axioms Svgdx.RelPlace.parseLocSpec_named
#print axioms Svgdx.RelPlace.parseLocSpec_edge
#print axioms Svgdx.RelPlace.splitCompoundAttr_ref_alone
#print axioms Svgdx.RelPlace.splitCompoundAttr_ref_one
#print axioms Svgdx.RelPlace.splitCompoundAttr_ref_two
#print axioms Svgdx.RelPlace.xyLoc_axes
#print axioms Svgdx.RelPlace.cxy_axes
#print axioms Svgdx.RelPlace.evalPosAttr_xy_at
#print axioms Svgdx.RelPlace.evalRelPosition_at
#print axioms Svgdx.RelPlace.evalPosAttr_scalar
#print axioms Svgdx.RelPlace.evalPosAttr_scalar_d
#print axioms Svgdx.RelPlace.evalSizeAttr_ref
#print axioms Svgdx.RelPlace.evalSizeAttr_same
#print axioms Svgdx.RelPlace.evalSizeAttr_delta
#print axioms Svgdx.RelPlace.evalSizeAttr_scalar
#print axioms Svgdx.RelPlace.resolveSizeDelta_dw
#print axioms Svgdx.RelPlace.resolveSizeDelta_dh
#print axioms Svgdx.RelPlace.resolveSizeDelta_none
#print axioms Svgdx.RelPlace.evalPosAttr_cases
#print axioms Svgdx.RelPlace.evalSizeAttr_cases
#print axioms Svgdx.RelPlace.evalRelPosition_cases
#print axioms Svgdx.RelPlace.evalPosAttr_missing
#print axioms Svgdx.RelPlace.evalSizeAttr_missing
#print axioms Svgdx.RelPlace.evalRelPosition_missing
#print axioms Svgdx.RelPlace.evalRelPosition_bad_dir
#print axioms Svgdx.RelPlace.isPosAttr_scalar
#print axioms Svgdx.RelPlace.isSizeAttr_scalar
