/-
  C19 — Shape text reaches the output verbatim and at the requested anchor.

  About the model of text.rs (`Svgdx.Text`, tied by the text/process_text_attr correspondence stream,
  attribute for attribute and character for character) and the writer's escaping (`Svgdx.Xml`).
-/
import Svgdx.Geom.Text
import Svgdx.Proofs.XmlEscape
import Mathlib.Tactic.Linarith

namespace Svgdx.Props.C19
open Svgdx Gen Text Xml

/-- **verbatim through the writer**: the character data written for a text / tspan element, once
    XML-unescaped, is exactly its content string — for every string -/
theorem content_survives_writer (content : Str) : unescape (escape content) = some content :=
  unescape_escape content

/-- **one tspan per line**, in order (bottom-up for vertical text) -/
theorem tspan_per_line (pre vertical : Bool) (ls : List Str) :
    (spanContents pre vertical ls).length = ls.length := by
  unfold spanContents
  cases vertical <;> simp

/-- **each non-empty line reaches its tspan verbatim** (plain text) and an empty line becomes a
    zero-width space so that the blank line is kept -/
theorem tspan_content_verbatim (ls : List Str) :
    spanContents false false ls = ls.map fun l => if l.isEmpty then zwsp else l := by
  simp [spanContents]

/-- pre-formatted text only swaps blanks for no-break spaces, length and other characters unchanged -/
theorem pre_keeps_characters (l : Str) :
    (l.map fun c => if c == ' ' then nbsp else c).length = l.length ∧
    ∀ c ∈ l, c ≠ ' ' → c ∈ (l.map fun c => if c == ' ' then nbsp else c) := by
  refine ⟨by simp, ?_⟩
  intro c hc hne
  simp only [List.mem_map]
  exact ⟨c, hc, by simp [hne]⟩

/-- a text value without a backslash is taken as is (no line-break processing applies) -/
theorem textString_plain (s : Str) (h : '\\' ∉ s) : textString s = s := by
  unfold textString
  have key : ∀ (fuel : Nat) (rest out : Str), '\\' ∉ rest → rest.length ≤ fuel →
      textString.go fuel rest out = out.reverse ++ rest := by
    intro fuel
    induction fuel with
    | zero => intro rest out _ _; simp [textString.go]
    | succ k ih =>
      intro rest out hr hl
      cases rest with
      | nil => simp [textString.go]
      | cons c cs =>
        have hc : c ≠ '\\' := fun e => hr (by simp [e])
        have hcs : '\\' ∉ cs := fun e => hr (by simp [e])
        rw [textString.go]
        · rw [ih cs (c :: out) hcs (by simp at hl; omega)]; simp
        · intro r o h1; exact hc o
  simpa using key s.length s [] h (le_refl _)

/-- `\n` written as backslash-n is a line break; worked instances with escaped and literal forms -/
example : textString cs!"a\\nb" = cs!"a\nb" := by decide +kernel
example : textString cs!"a\\\\nb" = cs!"a\\nb" := by decide +kernel
example : lines cs!"a\n\nb\n" = [cs!"a", [], cs!"b"] := by decide +kernel

/-- **the anchor is moved by text-offset inward** (text inside a shape): down from a top location, up
    from a bottom one, right from a left one, left from a right one, not at all from the centre;
    **outward** for lines, points, text elements and `d-text-outside` — the same amounts negated -/
theorem offset_direction (loc : LocSpec) (o : Rat) :
    offsetDelta loc false o =
      ((if loc.is_left then o else if loc.is_right then -o else 0),
       (if loc.is_top then o else if loc.is_bottom then -o else 0)) ∧
    offsetDelta loc true o =
      ((if loc.is_left then -o else if loc.is_right then o else 0),
       (if loc.is_top then -o else if loc.is_bottom then o else 0)) := by
  simp [offsetDelta]

theorem outside_is_inside_negated (loc : LocSpec) (o : Rat) :
    offsetDelta loc true o = (-(offsetDelta loc false o).1, -(offsetDelta loc false o).2) := by
  simp only [offsetDelta]
  cases loc <;> simp [LocSpec.is_top, LocSpec.is_bottom, LocSpec.is_left, LocSpec.is_right]

/-- the alignment classes follow the anchor: at most one vertical and one horizontal class, none at the
    centre, and the top/bottom (left/right) class flips when the text is outside -/
theorem anchor_classes_centre (outside vertical : Bool) : anchorClasses .Center outside vertical = [] := by
  simp [anchorClasses, LocSpec.is_top, LocSpec.is_bottom, LocSpec.is_left, LocSpec.is_right]

theorem anchor_classes_flip :
    anchorClasses .Top false false = [cs!"d-text-top"] ∧ anchorClasses .Top true false = [cs!"d-text-bottom"] ∧
    anchorClasses .BottomRight false false = [cs!"d-text-bottom", cs!"d-text-right"] ∧
    anchorClasses .BottomRight true false = [cs!"d-text-top", cs!"d-text-left"] := by
  simp [anchorClasses, LocSpec.is_top, LocSpec.is_bottom, LocSpec.is_left, LocSpec.is_right]

/-- multi-line placement: the first tspan is offset so that the block of `n` lines is top-, centre- or
    bottom-justified at the anchor (0, −(n−1)/2 or −(n−1) line spacings) -/
theorem first_line_offsets (n : Nat) (sp : Rat) :
    firstLineOffset false false .Top n sp = 0 ∧
    firstLineOffset false false .Center n sp = -((n : Rat) - 1) / 2 * sp ∧
    firstLineOffset false false .Bottom n sp = -((n : Rat) - 1) * sp ∧
    firstLineOffset true false .Top n sp = -((n : Rat) - 1) * sp ∧
    firstLineOffset true false .Bottom n sp = 0 := by
  simp [firstLineOffset, LocSpec.is_top, LocSpec.is_bottom]

end Svgdx.Props.C19

#print axioms Svgdx.Props.C19.content_survives_writer
#print axioms Svgdx.Props.C19.tspan_per_line
#print axioms Svgdx.Props.C19.tspan_content_verbatim
#print axioms Svgdx.Props.C19.pre_keeps_characters
#print axioms Svgdx.Props.C19.textString_plain
#print axioms Svgdx.Props.C19.offset_direction
#print axioms Svgdx.Props.C19.outside_is_inside_negated
#print axioms Svgdx.Props.C19.anchor_classes_centre
#print axioms Svgdx.Props.C19.anchor_classes_flip
#print axioms Svgdx.Props.C19.first_line_offsets
