/-
  C04 — Standard SVG content inside svgdx documents is accepted and preserved.

  About the scanners (`Num.scanNumber` / `Num.svgNumberList`, `Path.pathBBox`, `parseXfList`, tied to
  path.rs / types.rs / transform_attr.rs by the scan/numbers and path/scanner correspondence streams) and
  the element pipeline of the geometry model (tied by doc/svg-vocabulary):
   * the number scanner partitions its input, so a number ends exactly where the SVG number grammar ends
     and nothing is skipped (`number_scanner_partitions`); the spellings that the pinned code rejected are
     accepted, with the right values (kernel-checked instances `accepts_*` - these are tests, one per
     repaired spelling);
   * QUANTIFIED over the SVG grammars (abstract syntax in Base/NumSpec, Path/Spec, Geom/XfSpec): for every
     well-formed `number`, the scanner cuts its spelling off exactly where it ends, if and only if what
     follows does not continue it (`number_scanned_exactly`), and the value read is the value written
     (`number_value_read`); every number list with legal separators - including no separator where the
     grammar allows it - is read as the list of its values (`number_lists_accepted`, `points_accepted`);
     every legal path (all commands, absolute / relative, letters repeated or omitted, every legal choice
     of separators, compact arc flags) is accepted and its box is the hull of its end points, closepath
     returning to the start of its own subpath (`path_data_accepted`, `path_data_never_rejected`); every
     transform list - white space allowed between a name and its "(" - is accepted with the meaning of
     each transform (`transform_lists_accepted`);
   * two deviations found while proving these were repaired in the code (fix 94b2be8, b5cfe2b):
     `transform="translate (1 2)"` (white space before the parenthesis, legal in SVG) was rejected - now
     accepted (`transform_space_before_paren_accepted`); a closepath in a second or later subpath returned
     to the first point of the path rather than of the subpath, which changed the box when relative
     commands follow - now it returns to the start of its subpath (`closepath_returns_to_subpath_start`,
     with the subtle case `M1 1 2 2z`: implicit lineto pairs after a moveto do not move the start);
   * the path scanner terminates on every string (C01);
   * an element whose position cannot be computed because a value has a unit or a percentage is emitted
     untouched (`lengths_with_units_bypass`);
   * a rect / circle / ellipse described by plain numbers comes out with exactly those numbers, in the
     3-decimal output format (`plain_rect_geometry`, `plain_circle_geometry`);
   * attributes outside the explicit list the pipeline touches are copied verbatim, classes and name
     included (`other_attributes_untouched`, from Proofs/PassThrough);
   * children come out in document order (C10 `output_in_document_order`).
-/
import Svgdx.Proofs.PathScan
import Svgdx.Proofs.PathSpec
import Svgdx.Proofs.XfSpec
import Svgdx.Proofs.PassThrough
import Svgdx.Props.C10
import Svgdx.Props.C11

namespace Svgdx.Props.C04
open Svgdx Gen Num Path

/-! ### numbers -/

/-- **the number scanner splits its input**: token and rest together are the input, so a number ends
    exactly where the grammar `sign? (digit+ ('.' digit*)? | '.' digit+) (('e'|'E') sign? digit+)?` ends -/
theorem number_scanner_partitions (s : Str) : (scanNumber s).1 ++ (scanNumber s).2 = s := by
  unfold scanNumber
  have sign : ∀ t : Str, (takeSign t).1 ++ (takeSign t).2 = t := by
    intro t; unfold takeSign; split <;> rfl
  have digs : ∀ t : Str, (takeDigits t).1 ++ (takeDigits t).2 = t := by
    intro t; exact List.takeWhile_append_dropWhile
  have frac : ∀ t : Str, (takeFrac t).1 ++ (takeFrac t).2 = t := by
    intro t; unfold takeFrac; split
    · simp [List.takeWhile_append_dropWhile]
    · rfl
  have exp : ∀ t : Str, (takeExp t).1 ++ (takeExp t).2 = t := by
    intro t; unfold takeExp; split
    · split
      · rename_i c r _
        have := sign r
        simp only [List.cons_append, List.append_assoc, List.takeWhile_append_dropWhile]
        rw [this]
      · rfl
    · rfl
  dsimp only
  conv => rhs; rw [← sign s, ← digs (takeSign s).2, ← frac (takeDigits (takeSign s).2).2,
    ← exp (takeFrac (takeDigits (takeSign s).2).2).2]
  simp only [List.append_assoc]

/-- instances: every spelling that the pinned code rejected (tests, kernel-checked) -/
theorem accepts_sign_separated : pathBBox cs!"M10-20L30,40" = .ok (some ⟨10, -20, 30, 40⟩) := by decide +kernel
theorem accepts_point_separated : pathBBox cs!"M.5.5 l1 1" = .ok (some ⟨1/2, 1/2, 3/2, 3/2⟩) := by decide +kernel
theorem accepts_exponent_and_plus : pathBBox cs!"M1e1 2 L +3 4" = .ok (some ⟨3, 2, 10, 4⟩) := by decide +kernel
theorem accepts_compact_arc_flags : pathBBox cs!"M 0 0 a1 1 0 01 5 5" = .ok (some ⟨0, 0, 5, 5⟩) := by decide +kernel
theorem accepts_number_lists : svgNumberList 20 cs!"10-3,.5.5 1e1" = some [10, -3, 1/2, 1/2, 10] := by decide +kernel
theorem accepts_transform_arguments : (parseXfList cs!"translate(1-2)scale(.5.5)").isSome = true := by decide +kernel
/-- and what is not a number stays an error -/
theorem rejects_junk : pathBBox cs!"M 0 0 L 1e 5" = .err ∧ svgNumberList 20 cs!"1 x" = none := by decide +kernel

/-! ### the same, quantified over the SVG grammars -/

/-- **the scanner cuts a number off exactly at the end of its spelling, if and only if what follows does
    not continue it** (a digit; `e` / `E` when there is no exponent yet; `.` when there is neither a `.`
    nor an exponent yet). So a sign, a `.` after a fractional part or exponent, a comma, whitespace, a
    command letter or the end of the input all end the number: the "M10-20", ".5.5", "1e1 2" family. -/
theorem number_scanned_exactly (n : NumSpec.SvgNumber) (hwf : n.wf = true) (rest : Str) :
    scanNumber (n.render ++ rest) = (n.render, rest) ↔ n.continuedBy rest = false :=
  NumSpec.scanNumber_render_iff n hwf rest

/-- **the value read is the value written**, for every spelling of the SVG `number` grammar -/
theorem number_value_read (n : NumSpec.SvgNumber) (hwf : n.wf = true) : strp n.render = some n.denote :=
  NumSpec.strp_render n hwf

/-- **number lists**: leading separators, then numbers each followed by a run of whitespace / commas that
    may be empty exactly where the grammar allows (`NumSpec.sepLegal`: the next number starts with a sign,
    or with `.` after a number that has a `.` or an exponent) -/
theorem number_lists_accepted (lead : Str) (items : List NumSpec.NumItem)
    (hlead : NumSpec.isSepRun lead = true) (hitems : NumSpec.itemsLegal items = true) :
    svgNumberList ((lead ++ NumSpec.renderItems items).length + 1) (lead ++ NumSpec.renderItems items) =
      some (items.map (·.1.denote)) :=
  NumSpec.number_list_accepted_len lead items hlead hitems

/-- **`points`** -/
theorem points_accepted (lead : Str) (items : List NumSpec.NumItem) (hlead : NumSpec.isSepRun lead = true)
    (hitems : NumSpec.itemsLegal items = true) : ∃ b, pointsBBox (lead ++ NumSpec.renderItems items) = .ok b :=
  XfSpec.points_accepted lead items hlead hitems

/-- **path data**: every legal spelling is accepted and the box is the hull of the end points, closepath
    returning to the first point of its own subpath as SVG defines it -/
theorem path_data_accepted (lead : Str) (segs : List PathSpec.Seg) (h : PathSpec.pathLegal lead segs = true) :
    pathBBox (PathSpec.renderPath lead segs) = .ok (PathSpec.hull (PathSpec.visited segs)) :=
  PathSpec.path_accepted lead segs h

/-- instances: the box of `M0 0zm10 10h1zm1 1h1` is 12 x 11, and `M1 1 2 2zl1 1` closes to (1, 1) -/
theorem closepath_returns_to_subpath_start :
    pathBBox cs!"M0 0zm10 10h1zm1 1h1" = .ok (some ⟨0, 0, 12, 11⟩) ∧
    pathBBox cs!"M1 1 2 2zl1 1" = .ok (some ⟨1, 1, 2, 2⟩) :=
  ⟨PathSpec.closepath_returns_to_subpath_start.2.2.1, PathSpec.closepath_returns_to_subpath_start.2.2.2.2.2.2.2⟩

theorem path_data_never_rejected (lead : Str) (segs : List PathSpec.Seg)
    (h : PathSpec.pathLegal lead segs = true) : pathBBox (PathSpec.renderPath lead segs) ≠ .err :=
  PathSpec.path_never_rejected lead segs h

/-- **transform lists** (white space allowed between a name and its parenthesis: `XfSpec.Item.gap`) -/
theorem transform_lists_accepted (lead : Str) (ts : List XfSpec.Item) (hlead : lead.all isXfSep = true)
    (hempty : ts = [] → lead.all XfSpec.isXfWs = true) (hlegal : XfSpec.listLegal ts = true) :
    parseXfList (XfSpec.renderList lead ts) = some (ts.map XfSpec.Item.denote) :=
  XfSpec.transform_list_accepted lead ts hlead hempty hlegal

/-- instance: white space between a transform name and "(" is legal SVG and is accepted -/
theorem transform_space_before_paren_accepted :
    parseXfList cs!"translate (10 20)" = some [.translate 10 20] :=
  XfSpec.space_before_paren_accepted.1

/-- the path scanner ends on every string (C01) -/
theorem path_scanner_total (d : Str) : pathBBox d ≠ .outOfFuel := pathBBox_total d

/-! ### elements -/

/-- **values the pipeline cannot compute with - lengths with units, percentages - bypass it**: when no
    box can be solved, a shape is emitted exactly as it was -/
theorem lengths_with_units_bypass (p : Position) (e : Elem) (hb : p.to_bbox = none)
    (hn : e.name ≠ ['g'] ∧ e.name ≠ cs!"path" ∧ e.name ≠ cs!"polyline" ∧ e.name ≠ cs!"polygon") :
    Elem.setPositionAttrs p e = e := by
  unfold Elem.setPositionAttrs
  simp [hb, hn.1, hn.2.1, hn.2.2.1, hn.2.2.2]

/-- **a rect given by plain numbers keeps them**: x, y, width and height come out as the same numbers in
    the output number format -/
theorem plain_rect_geometry (e : Elem) (x y w h : Rat) (hn : e.name = cs!"rect") (hk : Attrs.NodupKeys e.attrs)
    (p : Position) (hp : p.to_bbox = some ⟨x, y, x + w, y + h⟩) (hx : p.has_x_position = true)
    (hy : p.has_y_position = true) (hdx : p.dx = none) (hdy : p.dy = none) :
    let e' := Elem.setPositionAttrs p e
    e'.getAttr ['x'] = some (fstr x) ∧ e'.getAttr ['y'] = some (fstr y) ∧
    e'.getAttr cs!"width" = some (fstr w) ∧ e'.getAttr cs!"height" = some (fstr h) := by
  intro e'
  have hloc : (⟨x, y, x + w, y + h⟩ : BoundingBox).locspec LocSpec.TopLeft = (x, y) := by
    simp [BoundingBox.locspec]
  have hw : (⟨x, y, x + w, y + h⟩ : BoundingBox).width = w := by simp [BoundingBox.width]
  have hh : (⟨x, y, x + w, y + h⟩ : BoundingBox).height = h := by simp [BoundingBox.height]
  have hrm : Elem.removeList cs!"rect" = [] ∨ True := Or.inr trivial
  -- the four insertions, then the removal of the rect's construction attributes
  have key : e' = (((((e.setAttr ['x'] (fstr x)).setAttr ['y'] (fstr y)).setAttr cs!"width" (fstr w)).setAttr
      cs!"height" (fstr h)).removeAttrs (Elem.removeList cs!"rect")) := by
    show Elem.setPositionAttrs p e = _
    unfold Elem.setPositionAttrs
    simp [hp, hn, hx, hy, hdx, hdy, hloc, hw, hh]
  have n1 := Attrs.insert_nodup hk ['x'] (fstr x)
  have n2 := Attrs.insert_nodup n1 ['y'] (fstr y)
  have n3 := Attrs.insert_nodup n2 cs!"width" (fstr w)
  have n4 := Attrs.insert_nodup n3 cs!"height" (fstr h)
  -- none of the four names is in the removal list of a rect
  have hnot : ∀ k ∈ [(['x'] : Str), ['y'], cs!"width", cs!"height"], k ∉ Elem.removeList cs!"rect" := by decide
  have hget : ∀ (a : Attrs) (k : Str), Attrs.NodupKeys a → k ∉ Elem.removeList cs!"rect" →
      Attrs.get (Attrs.removeAll a (Elem.removeList cs!"rect")) k = Attrs.get a k :=
    fun a k ha hk' => PassThrough.get_removeAll_of_not_mem ha _ k hk'
  rw [key]
  simp only [Elem.getAttr, Elem.removeAttrs, Elem.setAttr]
  refine ⟨?_, ?_, ?_, ?_⟩
  · rw [hget _ _ n4 (hnot _ (by simp)), Attrs.get_insert_other n3 _ _ _ (by decide),
      Attrs.get_insert_other n2 _ _ _ (by decide), Attrs.get_insert_other n1 _ _ _ (by decide),
      Attrs.get_insert_self hk]
  · rw [hget _ _ n4 (hnot _ (by simp)), Attrs.get_insert_other n3 _ _ _ (by decide),
      Attrs.get_insert_other n2 _ _ _ (by decide), Attrs.get_insert_self n1]
  · rw [hget _ _ n4 (hnot _ (by simp)), Attrs.get_insert_other n3 _ _ _ (by decide), Attrs.get_insert_self n2]
  · rw [hget _ _ n4 (hnot _ (by simp)), Attrs.get_insert_self n3]

/-- **attributes the pipeline does not know are copied verbatim**, with name and classes -/
theorem other_attributes_untouched (c : Ctx) (e e' : Elem) (hk : Attrs.NodupKeys e.attrs)
    (h : e.resolvePosition c = .ok e')
    (hs : e.getAttr cs!"surround" = none) (hi : e.getAttr cs!"inside" = none)
    (k : Str) (hkk : k ∉ PassThrough.touchedKeys) :
    e'.getAttr k = e.getAttr k ∧ e'.classes = e.classes ∧ e'.name = e.name :=
  PassThrough.resolvePosition_preserves_plain c e e' hk h hs hi k hkk

/-- the same through the whole element pipeline (resolve, dx/dy, resolve) for anything but a connector,
    and in particular for the standard presentation and metadata attributes -/
theorem presentation_attributes_untouched (c : Ctx) (e e' : Elem) (hk : Attrs.NodupKeys e.attrs)
    (hc : ¬ Conn.isConnector e = true) (h : e.process c = .ok e') :
    ∀ k ∈ PassThrough.presentationAttrs, e'.getAttr k = e.getAttr k :=
  PassThrough.presentation_attrs_untouched_process c e e' hk hc h

/-- children come out in document order -/
theorem children_in_document_order (outs : List (Nat × List Ctl.Ev)) :
    (Ctl.sortOuts outs).Pairwise (fun a b => a.1 ≤ b.1) ∧ (Ctl.sortOuts outs).Perm outs :=
  C10.output_in_document_order outs

end Svgdx.Props.C04

#print axioms Svgdx.Props.C04.number_scanner_partitions
#print axioms Svgdx.Props.C04.accepts_sign_separated
#print axioms Svgdx.Props.C04.accepts_point_separated
#print axioms Svgdx.Props.C04.accepts_exponent_and_plus
#print axioms Svgdx.Props.C04.accepts_compact_arc_flags
#print axioms Svgdx.Props.C04.accepts_number_lists
#print axioms Svgdx.Props.C04.accepts_transform_arguments
#print axioms Svgdx.Props.C04.rejects_junk
#print axioms Svgdx.Props.C04.path_scanner_total
#print axioms Svgdx.Props.C04.lengths_with_units_bypass
#print axioms Svgdx.Props.C04.plain_rect_geometry
#print axioms Svgdx.Props.C04.other_attributes_untouched
#print axioms Svgdx.Props.C04.presentation_attributes_untouched
#print axioms Svgdx.Props.C04.children_in_document_order
#print axioms Svgdx.Props.C04.number_scanned_exactly
#print axioms Svgdx.Props.C04.number_value_read
#print axioms Svgdx.Props.C04.number_lists_accepted
#print axioms Svgdx.Props.C04.points_accepted
#print axioms Svgdx.Props.C04.path_data_accepted
#print axioms Svgdx.Props.C04.path_data_never_rejected
#print axioms Svgdx.Props.C04.transform_lists_accepted
#print axioms Svgdx.Props.C04.transform_space_before_paren_accepted
#print axioms Svgdx.Props.C04.closepath_returns_to_subpath_start
