/-
  C05 (composition) — the second pass is the identity on EVERY output of the writer.

  `C05.second_pass_identity_partial` needs to be told that the text tokenizes, that end tags close with a bare
  `>` and that a DOCTYPE keyword is followed by one blank. Here these are PROVED for whatever the writer model
  writes (`Svgdx.Xml.write`), from a condition on element / attribute NAMES only (`Writable`); attribute values,
  text, comments and CDATA text are arbitrary — escaping, `commentSafe` and `cdataSplit` take care of them.

  The statements are about `write`; the guarded writer `writeChecked` (fix 031e68d) returns `write evs` or nothing,
  and `postprocess` (fix 229d1ae) keeps the hypotheses, so they carry over to a whole run: see
  `C02.transform_written_wellformed_strict_and_fixed` in `C02Xml`.
-/
import Svgdx.Proofs.XmlRoundTrip
import Svgdx.Proofs.XmlCompose
import Svgdx.Proofs.XmlSpec

namespace Svgdx.Props.C05
open Svgdx Xml

/-- **the tokenizer reads back exactly the events that were written**: `tokensOf evs` has one token per event of
    the coalesced list, of the expected kind and with the written text as content (start / empty: name and
    attributes; end: the name; comment: the sanitised comment; text: the escaped text), none for a text event that
    writes nothing and one per section for a CDATA event -/
theorem tokenizer_reads_what_was_written (evs : List Ctl.Ev) (h : Writable evs) :
    tokenize ((write evs).length + 1) (write evs) = some (tokensOf evs) := tokenize_write evs h

/-- **read-then-write reproduces every output of the writer** (no hypothesis on the output text) -/
theorem second_pass_identity (evs : List Ctl.Ev) (h : Writable evs) : passThroughW (write evs) = some (write evs) :=
  write_passthrough evs h

/-- `Writable` follows from the hypotheses of well-formedness (names are XML Names, tags nested) -/
theorem second_pass_identity_of_names (evs : List Ctl.Ev) (hb : Ctl.Balanced evs) (hn : NamesOk evs) :
    passThroughW (write evs) = some (write evs) := write_passthrough evs (namesOk_writable evs hb hn)

/-- the same for the guarded writer: whatever it returns is reproduced -/
theorem second_pass_identity_checked (evs : List Ctl.Ev) (out : Str) (hw : writeChecked evs = some out)
    (h : Writable evs) : passThroughW out = some out := by
  rw [writeChecked_eq evs out hw]; exact write_passthrough evs h

/-- a hostile event list: every special character in every position, adjacent and empty text events, a comment
    full of dashes, a CDATA text with `]]>` twice -/
def hostile : List Ctl.Ev :=
  [.start { name := cs!"svg", attrs := [(cs!"version", cs!"1.1"), (cs!"xmlns", cs!"http://www.w3.org/2000/svg")] },
   .text cs!"\n  ",
   .start { name := cs!"g", attrs := [(cs!"data-x", cs!"a & b < \"c\" > 'd'")], classes := [cs!"p", cs!"q"] },
   .text cs!"1 < 2  \n", .text cs!"]]> &amp;", .comment cs!"- a -- b -", .cdata cs!"x]]>y]]]>", .text [],
   .empty { name := cs!"rect", attrs := [(cs!"width", cs!"3"), (cs!"height", cs!"3")] },
   .end_ cs!"g", .text cs!"\n", .end_ cs!"svg"]

example : Writable hostile := by decide +kernel

example : write hostile =
    cs!"<svg version=\"1.1\" xmlns=\"http://www.w3.org/2000/svg\">\n  <g data-x=\"a &amp; b &lt; &quot;c&quot; &gt; &apos;d&apos;\" class=\"p q\">1 &lt; 2\n]]&gt; &amp;amp;<!--- a - - b - --><![CDATA[x]]]]><![CDATA[>y]]]]]><![CDATA[>]]><rect width=\"3\" height=\"3\"/></g>\n</svg>" := by
  decide +kernel

/-- the kinds of the tokens: two adjacent text events give one token, the empty one none, the CDATA event three -/
example : (tokensOf hostile).map (·.kind) =
    [.start, .text, .start, .text, .comment, .cdata, .cdata, .cdata, .empty, .end_, .text, .end_] := by
  decide +kernel

example : passThroughW (write hostile) = some (write hostile) := second_pass_identity hostile (by decide +kernel)

/-- the conditions are not idle: an end tag with a trailing blank is written with it and read back without … -/
example : write [.end_ cs!"a "] = cs!"</a >" ∧ passThroughW (write [.end_ cs!"a "]) = some cs!"</a>" := by
  decide +kernel
/-- … a quote in an element name leaves the tag unterminated for the reader … -/
example : passThroughW (write [.empty { name := cs!"a\"", attrs := [] }]) = none := by decide +kernel
/-- … and a start tag `a/` without attributes is read back as an empty-element tag `a` (same bytes, other event) -/
example : (tokenize 10 (write [.start { name := cs!"a/", attrs := [] }])).map (·.map (·.kind)) = some [.empty] := by
  decide +kernel

end Svgdx.Props.C05

#print axioms Svgdx.Props.C05.tokenizer_reads_what_was_written
#print axioms Svgdx.Props.C05.second_pass_identity
#print axioms Svgdx.Props.C05.second_pass_identity_of_names
#print axioms Svgdx.Props.C05.second_pass_identity_checked
