/-
  C17 — Limits reject exactly when exceeded; depth means nesting, not length.

  About the control-skeleton model `Svgdx.Ctl` (hand-written, tied to transform.rs / context.rs /
  loop_el.rs by the probe and document correspondence streams). Parametric in the expression
  evaluator: every statement holds whatever `{{…}}` evaluates to.
-/
import Svgdx.Proofs.CtlInv

namespace Svgdx.Props.C17
open Svgdx Ctl

variable {ρ : Type}

/-- **the depth counter is restored by every element, for every outcome** (success, any error, a limit
    error, even running out of fuel): siblings therefore all start at their parent's depth, however many
    there are — depth measures nesting, not length. -/
theorem depth_restored (ev : Evalr ρ) (fuel : Nat) (st : St ρ) (e : Elem) (kids : Option Nodes)
    (h : st.scopes ≠ []) : (genElem ev fuel st e kids).1.depth = st.depth :=
  ((allInv ev fuel).genElem st e kids h).1

theorem depth_restored_node (ev : Evalr ρ) (fuel : Nat) (st : St ρ) (n : Node) (h : st.scopes ≠ []) :
    (genNode ev fuel st n).1.depth = st.depth :=
  ((allInv ev fuel).genNode st n h).1

/-- a whole pass over any number of sibling tags leaves the depth where it was -/
theorem depth_restored_pass (ev : Evalr ρ) (fuel : Nat) (st : St ρ) (ts : List Tag) outs bb rem
    (h : st.scopes ≠ []) : (onePass ev fuel st ts outs bb rem).1.depth = st.depth :=
  ((allInv ev fuel).onePass st ts outs bb rem h).1

/-- … and so does a whole document fragment, including every retry pass -/
theorem depth_restored_document (ev : Evalr ρ) (fuel : Nat) (st : St ρ) (ks : Nodes) (h : st.scopes ≠ []) :
    (processNodes ev fuel st ks).1.depth = st.depth :=
  ((allInv ev fuel).processNodes st ks h).1

/-- entering an element at nesting depth `limit` is rejected with the depth error, and nothing is
    processed (state untouched) -/
theorem depth_limit_rejects (ev : Evalr ρ) (fuel : Nat) (st : St ρ) (e : Elem) (kids : Option Nodes)
    (h : st.depth + 1 > st.cfg.depthLimit) :
    genElem ev (fuel + 1) st e kids = (st, .error (.depthLimit (st.depth + 1) st.cfg.depthLimit)) := by
  rw [genElem]; simp [h]

/-- within the limit the element is dispatched one level deeper, the counter is put back, and only the
    clip-path adjustment of the bounding box follows -/
theorem depth_within_limit_dispatches (ev : Evalr ρ) (fuel : Nat) (st : St ρ) (e : Elem) (kids : Option Nodes)
    (h : st.depth + 1 ≤ st.cfg.depthLimit) :
    genElem ev (fuel + 1) st e kids =
      clipPost ev e
        ({ (dispatch ev fuel { st with depth := st.depth + 1 } e kids).1 with
            depth := (dispatch ev fuel { st with depth := st.depth + 1 } e kids).1.depth - 1 },
         (dispatch ev fuel { st with depth := st.depth + 1 } e kids).2) := by
  rw [genElem]
  have : ¬ st.depth + 1 > st.cfg.depthLimit := by omega
  simp [this]

/-- **limit errors are final**: a pass that meets a limit error stops with that error; the tag is not
    kept for a retry (which would resume from the state the failed attempt left behind) -/
theorem limit_error_final (ev : Evalr ρ) (fuel : Nat) (st : St ρ) (t : Tag) (ts : List Tag) outs bb rem
    (er : CErr) (hl : er.isLimit = true)
    (hnode : (genNode ev fuel (registerEarly ev st t.node) t.node).2 = .error er)
    (hspecs : (genNode ev fuel (registerEarly ev st t.node) t.node).1.inSpecs = false) :
    (onePass ev (fuel + 1) st (t :: ts) outs bb rem).2 = .error er := by
  rw [onePass]
  simp [hnode, hspecs, hl]

/-- a loop that has made more than `loop-limit` passes is an error, never a truncated result — whatever
    its `until` condition would have said -/
theorem loop_limit_rejects (ev : Evalr ρ) (fuel : Nat) (st : St ρ) (ks : Nodes) (c : Option Nat) (w u : Option Str)
    (n : Str) (v s : Rat) (i : Nat) (acc : List Ev) (bb)
    (st1 st2 : St ρ) (r : List Ev × Option Gen.BoundingBox)
    (hpre : preTest ev st c w i = (st1, .ok true))
    (hbody : processNodes ev fuel (bindLoopVar st1 n v) ks = (st2, .ok r))
    (hlim : i + 1 > st2.cfg.loopLimit) :
    loopIter ev (fuel + 1) st ks c w u n v s i acc bb = (st2, .error (.loopLimit (i + 1) st2.cfg.loopLimit)) := by
  rw [loopIter]
  simp [seq, hpre, hbody, hlim]

/-- a count loop stops exactly when the count is reached: with `iteration = count` no further pass runs -/
theorem count_loop_stops (ev : Evalr ρ) (fuel : Nat) (st : St ρ) (ks : Nodes) (c : Nat) (w u : Option Str)
    (n : Str) (v s : Rat) (acc : List Ev) (bb) :
    loopIter ev (fuel + 1) st ks (some c) w u n v s c acc bb = (st, .ok (acc, bb)) := by
  rw [loopIter]
  simp [seq, preTest]

/-- a variable value longer than var-limit bytes is rejected, one within the limit is bound -/
theorem var_limit_exact (ev : Evalr ρ) (st : St ρ) (k v w : Str) (rng : ρ)
    (hev : ev.evalAttr st.geo st.env st.rng v = .ok (w, rng)) (hk : k ≠ ['_'] ∧ k ≠ cs!"__") :
    let e : Elem := { name := cs!"var", attrs := [(k, v)] }
    ((String.ofList w).utf8ByteSize > st.cfg.varLimit →
      (genVar ev st e).2 = .error (.varLimit k (String.ofList w).utf8ByteSize st.cfg.varLimit)) ∧
    ((String.ofList w).utf8ByteSize ≤ st.cfg.varLimit → (genVar ev st e).2 = .ok ([], none)) := by
  intro e
  have h1 : (k == ['_']) = false := by simpa using hk.1
  have h2 : (k == cs!"__") = false := by simpa using hk.2
  constructor
  · intro hgt
    simp [genVar, e, List.foldlM, h1, h2, hev, hgt]
  · intro hle
    have : ¬ (String.ofList w).utf8ByteSize > st.cfg.varLimit := by omega
    simp [genVar, e, List.foldlM, h1, h2, hev, this, pure, Except.pure, bind, Except.bind]

/-- `<config loop-limit= var-limit= depth-limit=>` takes effect for what follows -/
theorem config_limits_apply (c : Cfg) :
    applyConfig c { name := cs!"config", attrs := [(cs!"loop-limit", cs!"7"), (cs!"depth-limit", cs!"3")] }
      = .ok { c with loopLimit := 7, depthLimit := 3 } := by
  simp [applyConfig, List.foldlM, Attrs.lookupTable, Gen.ConfigElement.keys, Num.digitsToNat, Num.digitVal,
    Str.isDigit, bind, Except.bind, pure, Except.pure]

end Svgdx.Props.C17

#print axioms Svgdx.Props.C17.depth_restored
#print axioms Svgdx.Props.C17.depth_restored_node
#print axioms Svgdx.Props.C17.depth_restored_pass
#print axioms Svgdx.Props.C17.depth_restored_document
#print axioms Svgdx.Props.C17.depth_limit_rejects
#print axioms Svgdx.Props.C17.depth_within_limit_dispatches
#print axioms Svgdx.Props.C17.limit_error_final
#print axioms Svgdx.Props.C17.loop_limit_rejects
#print axioms Svgdx.Props.C17.count_loop_stops
#print axioms Svgdx.Props.C17.var_limit_exact
#print axioms Svgdx.Props.C17.config_limits_apply
