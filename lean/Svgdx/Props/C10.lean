/-
  C10 — Forward references: geometry is independent of document order.

  Two layers.
  (1) The retry loop of `process_tags` as an abstract scheduler (`Svgdx.Sched`, executable; proofs in
      `Svgdx.Proofs.Sched`): for items with unique ids whose evaluation is *monotone* — resolving more
      elements can turn "not ready" into a value but never changes a value — the result is the same for
      all n! orders, success does not depend on the order, and a failure exhibits elements that are
      unresolvable in every reachable environment. The counterexample shows exactly the defect that was
      repaired in the code: registering an element before it is resolved makes evaluation non-monotone.
  (2) The facts about the concrete control-skeleton / geometry model (tied to the code by the
      doc/forward-refs and doc/unsatisfiable correspondence streams) that supply the hypotheses: an
      element is invisible to references until it is resolved, unknown ids and targets without a
      bounding box are errors, a pass without progress ends in an error, output is in document order.
-/
import Svgdx.Proofs.Sched
import Svgdx.Proofs.CtlInv
import Svgdx.Proofs.Monotone

namespace Svgdx.Props.C10
open Svgdx Svgdx.Sched

/-! ### (1) the scheduler -/

/-- **every element gets the same value in every sibling order, and success does not depend on the order** -/
theorem order_independent {ι ν : Type} [DecidableEq ι] {l₁ l₂ : List (Item ι ν)}
    (hp : l₁.Perm l₂) (hnd : (l₁.map (·.id)).Nodup) (hmono : ∀ t ∈ l₁, Monotone t) :
    (run l₁).isSome = (run l₂).isSome ∧
    ∀ e₁ e₂, run l₁ = some e₁ → run l₂ = some e₂ → ∀ i, view e₁ i = view e₂ i :=
  run_perm hp hnd hmono

/-- a successful run resolved every element, consistently with the final environment: nothing was
    evaluated against a partial view that a complete view would contradict -/
theorem success_is_complete {ι ν : Type} [DecidableEq ι] {l : List (Item ι ν)} {e : Env ι ν}
    (hnd : (l.map (·.id)).Nodup) (hmono : ∀ t ∈ l, Monotone t) (h : run l = some e) :
    ∀ t ∈ l, ∃ v, view e t.id = some v ∧ t.eval (view e) = some v :=
  run_complete hnd hmono h

/-- **a failure is a reference that can never be satisfied**: some element stays unresolved in every
    environment any order could reach (unknown id, cycle, target without a box) -/
theorem failure_is_unsatisfiable {ι ν : Type} [DecidableEq ι] {l : List (Item ι ν)}
    (hnd : (l.map (·.id)).Nodup) (hmono : ∀ t ∈ l, Monotone t) (h : run l = none) :
    ∃ t ∈ l, ∀ e', Reach l e' → view e' t.id = none :=
  run_none_witness hnd hmono h

/-- the pass budget is not what decides -/
theorem passes_suffice {ι ν : Type} [DecidableEq ι] (items : List (Item ι ν)) (fuel : Nat)
    (h : items.length + 1 ≤ fuel) : retry fuel [] items = run items :=
  fuel_irrelevant items fuel h

/-! ### (2) the concrete model -/
open Ctl Elem

/-- **an element is not visible to geometry references before it is resolved**: the early registration
    of `process_tags` leaves the element map (and `^`) untouched -/
theorem early_registration_invisible {ρ : Type} (ev : Evalr ρ) (st : St ρ) (n : Node) :
    (registerEarly ev st n).geo = st.geo := by
  unfold registerEarly
  split
  · unfold registerOriginal; split <;> rfl
  · rfl

/-- an unknown id is a reference error, whatever follows it -/
theorem unknown_id_is_error (c : Ctx) (input : Str) (r : ElRef) (rest : Str)
    (hx : extractElref input = some (r, rest)) (hn : c.get r = none) :
    splitRelspec c input = .error .reference := by
  simp [splitRelspec, hx, hn]

/-- a reference to an element that has no bounding box is an error in a position attribute … -/
theorem missing_bbox_is_error_pos (c : Ctx) (e el : Elem) (name value rest : Str) (s : Gen.ScalarSpec)
    (hs : parseScalarSpec name = some s) (hr : splitRelspec c value = .ok (some el, rest))
    (hb : c.bb el = .ok none) :
    evalPosAttr c e name value = .error .missingBBox := by
  simp [evalPosAttr, hs, hr, hb, bind, Except.bind, throw, throwThe, MonadExceptOf.throw]

/-- … and in a size attribute: never the attribute left as it was -/
theorem missing_bbox_is_error_size (c : Ctx) (el : Elem) (name value rest : Str) (s : Gen.ScalarSpec)
    (hs : parseScalarSpec name = some s) (hr : splitRelspec c value = .ok (some el, rest))
    (hb : c.bb el = .ok none) :
    evalSizeAttr c name value = .error .missingBBox := by
  simp [evalSizeAttr, hs, hr, hb, bind, Except.bind, throw, throwThe, MonadExceptOf.throw]

/-- **a pass that completes no tag and resolves no new element ends the run with an error** listing the
    pending elements -/
theorem no_progress_is_error {ρ : Type} (ev : Evalr ρ) (fuel : Nat) (st st' : St ρ) (t : Tag) (ts : List Tag)
    (outs outs' : List (Nat × List Ev)) (bb bb' : Option Gen.BoundingBox) (remain : List Tag)
    (hp : Ctl.onePass ev fuel st (t :: ts) outs bb [] = (st', .ok (outs', bb', remain)))
    (hl : remain.length = (t :: ts).length) (hr : st'.geo.elems.length = st.geo.elems.length) :
    Ctl.retry ev (fuel + 1) st (t :: ts) outs bb = (st', .error (.multi (remain.map (·.idx)))) := by
  rw [Ctl.retry]
  simp only [seq, hp]
  split
  · rfl
  · simp [hl, hr]

/-- **a failed tag is attempted again only if something it could refer to has changed since**: when the
    generation counter (elements registered or changed, variables given a different value, configuration)
    stands where it stood right after the first failure of the pass, the run ends there with the pending
    elements as its error - every remaining tag has already seen everything that completed before it in
    the pass, so another pass would repeat the same work. (Before this rule a failing container was
    re-attempted after every pass in which a sibling completed, doubling the work per nesting level.) -/
theorem futile_retry_is_not_made {ρ : Type} (ev : Evalr ρ) (fuel : Nat) (st st' : St ρ) (t : Tag) (ts : List Tag)
    (outs outs' : List (Nat × List Ev)) (bb bb' : Option Gen.BoundingBox) (f : Tag) (remain : List Tag)
    (hp : Ctl.onePass ev fuel st (t :: ts) outs bb [] = (st', .ok (outs', bb', f :: remain)))
    (hg : f.failGen = some st'.gen) :
    Ctl.retry ev (fuel + 1) st (t :: ts) outs bb = (st', .error (.multi ((f :: remain).map (·.idx)))) := by
  rw [Ctl.retry]
  simp only [seq, hp]
  simp [hg]

/-- passes that complete no tag but resolve something new (inside a failing container) are retried, and
    at most loop-limit times over the whole document -/
theorem idle_passes_bounded {ρ : Type} (ev : Evalr ρ) (fuel : Nat) (st st' : St ρ) (t : Tag) (ts : List Tag)
    (outs outs' : List (Nat × List Ev)) (bb bb' : Option Gen.BoundingBox) (remain : List Tag)
    (hp : Ctl.onePass ev fuel st (t :: ts) outs bb [] = (st', .ok (outs', bb', remain)))
    (hl : remain.length = (t :: ts).length) (hr : st'.geo.elems.length ≠ st.geo.elems.length)
    (hb : st'.cfg.loopLimit < st'.idlePasses + 1) :
    (Ctl.retry ev (fuel + 1) st (t :: ts) outs bb).2 = .error (.multi (remain.map (·.idx))) := by
  rw [Ctl.retry]
  simp only [seq, hp]
  split
  · rfl
  · simp [hl, hr, hb]

/-! output is emitted in document order whatever order the elements were resolved in -/

theorem insert_sorted (acc : List (Nat × List Ev)) (o : Nat × List Ev)
    (h : acc.Pairwise (fun a b => a.1 ≤ b.1)) :
    ((acc.partition (fun p => p.1 ≤ o.1)).1 ++ [o] ++ (acc.partition (fun p => p.1 ≤ o.1)).2).Pairwise
      (fun a b => a.1 ≤ b.1) := by
  rw [List.partition_eq_filter_filter]
  simp only [List.append_assoc, List.singleton_append]
  rw [List.pairwise_append]
  refine ⟨h.filter _, ?_, ?_⟩
  · rw [List.pairwise_cons]
    refine ⟨?_, h.filter _⟩
    intro b hb
    have := (List.mem_filter.mp hb).2
    simp at this
    omega
  · intro a ha b hb
    have ha' := (List.mem_filter.mp ha).2
    simp at ha'
    rcases List.mem_cons.mp hb with rfl | hb
    · exact ha'
    · have := (List.mem_filter.mp hb).2
      simp at this
      omega

theorem insert_perm (acc : List (Nat × List Ev)) (o : Nat × List Ev) :
    ((acc.partition (fun p => p.1 ≤ o.1)).1 ++ [o] ++ (acc.partition (fun p => p.1 ≤ o.1)).2).Perm (o :: acc) := by
  rw [List.partition_eq_filter_filter]
  simp only [List.append_assoc, List.singleton_append]
  refine List.perm_middle.trans (List.Perm.cons _ ?_)
  exact List.filter_append_perm _ _

theorem sortOuts_spec (outs : List (Nat × List Ev)) :
    (sortOuts outs).Pairwise (fun a b => a.1 ≤ b.1) ∧ (sortOuts outs).Perm outs := by
  unfold sortOuts
  suffices h : ∀ (acc : List (Nat × List Ev)), acc.Pairwise (fun a b => a.1 ≤ b.1) →
      (outs.foldl (fun (acc : List (Nat × List Ev)) (o : Nat × List Ev) =>
          let (lo, hi) := acc.partition (fun p => p.1 ≤ o.1)
          lo ++ [o] ++ hi) acc).Pairwise (fun a b => a.1 ≤ b.1) ∧
      (outs.foldl (fun (acc : List (Nat × List Ev)) (o : Nat × List Ev) =>
          let (lo, hi) := acc.partition (fun p => p.1 ≤ o.1)
          lo ++ [o] ++ hi) acc).Perm (acc ++ outs) by
    simpa using h [] List.Pairwise.nil
  induction outs with
  | nil => intro acc h; simpa using h
  | cons o os ih =>
    intro acc h
    simp only [List.foldl_cons]
    have h1 := insert_sorted acc o h
    have h2 := insert_perm acc o
    obtain ⟨a, b⟩ := ih _ h1
    refine ⟨a, b.trans ?_⟩
    have : ((acc.partition (fun p => p.1 ≤ o.1)).1 ++ [o] ++ (acc.partition (fun p => p.1 ≤ o.1)).2 ++ os).Perm
        (o :: acc ++ os) := List.Perm.append_right _ h2
    refine this.trans ?_
    simp only [List.cons_append]
    exact (List.perm_middle (l₁ := acc) (l₂ := os) (a := o)).symm

/-- **output elements come out in document order**, each exactly once, whatever the resolution order -/
theorem output_in_document_order (outs : List (Nat × List Ev)) :
    (sortOuts outs).Pairwise (fun a b => a.1 ≤ b.1) ∧ (sortOuts outs).Perm outs :=
  sortOuts_spec outs

/-! ### (3) the hypothesis of (1) holds for the geometry model

  `Svgdx.Proofs.Monotone`: the one-element pipeline (`resolve_position`, connector rendering, `dx/dy`)
  of the geometry model is monotone in the set of resolved elements — once it succeeds, resolving more
  elements (same previous element, same value for every id already known) gives the same element. -/

/-- **evaluating an element is monotone** — for every element other than polyline / polygon / path,
    connectors included: a result obtained while some references were still unresolved is final -/
theorem evaluation_monotone {c c' : Ctx} {e e' : Elem} (h : Ctx.Incl c c')
    (hlen : c.elems.length ≤ c'.elems.length) (hn : Monotone.NoRelspecName e)
    (hr : e.process c = .ok e') : e.process c' = .ok e' :=
  Monotone.process_mono h hlen hn hr

/-- polyline / polygon / path carry relspecs inside `points` / `d`, which `expand_relspec` leaves as
    written while unresolved; for them the result is final as soon as it contains no `#` / `^` any more
    (and the transformer only accepts a result whose box can be computed, i.e. a clean one) -/
theorem evaluation_monotone_relspec_partial {c c' : Ctx} {e e' : Elem} (h : Ctx.Incl c c')
    (hlen : c.elems.length ≤ c'.elems.length) (hk : Attrs.NodupKeys e.attrs)
    (hr : e.resolvePosition c = .ok e') (hcl : Monotone.CleanRelspecAttrs e') :
    e.resolvePosition c' = .ok e' :=
  Monotone.resolvePosition_mono_of_clean h hlen hk hr hcl

/-- … and without that side condition the stage is NOT monotone (kernel-checked counterexample:
    `<polyline points="#a@br 30 40"/>` succeeds with the reference left in place while `a` is unknown
    and with its coordinates once `a` is known): the hypothesis above cannot be dropped -/
theorem evaluation_not_monotone_for_raw_relspecs :
    ¬ ∀ (c c' : Ctx) (e e' : Elem), Ctx.Incl c c' → c.elems.length ≤ c'.elems.length →
        e.resolvePosition c = .ok e' → e.resolvePosition c' = .ok e' :=
  Monotone.resolvePosition_not_mono

/-- the scheduler's `Monotone` hypothesis, instantiated: the geometry evaluation of one element as a
    scheduler item over environments with unique ids -/
theorem scheduler_item_monotone (prev : Option Elem) (e : Elem) (hn : Monotone.NoRelspecName e)
    {env env' : Sched.Env Str Elem} (hnd : (env.map Prod.fst).Nodup)
    (h : Sched.Incl (Sched.view env) (Sched.view env')) {v : Elem}
    (hv : Monotone.geomEval prev e env = some v) : Monotone.geomEval prev e env' = some v :=
  Monotone.geomEval_mono prev e hn hnd h hv

end Svgdx.Props.C10

#print axioms Svgdx.Props.C10.order_independent
#print axioms Svgdx.Props.C10.success_is_complete
#print axioms Svgdx.Props.C10.failure_is_unsatisfiable
#print axioms Svgdx.Props.C10.passes_suffice
#print axioms Svgdx.Props.C10.early_registration_invisible
#print axioms Svgdx.Props.C10.unknown_id_is_error
#print axioms Svgdx.Props.C10.missing_bbox_is_error_pos
#print axioms Svgdx.Props.C10.missing_bbox_is_error_size
#print axioms Svgdx.Props.C10.no_progress_is_error
#print axioms Svgdx.Props.C10.idle_passes_bounded
#print axioms Svgdx.Props.C10.futile_retry_is_not_made
#print axioms Svgdx.Props.C10.output_in_document_order
#print axioms Svgdx.Props.C10.evaluation_monotone
#print axioms Svgdx.Props.C10.evaluation_monotone_relspec_partial
#print axioms Svgdx.Props.C10.evaluation_not_monotone_for_raw_relspecs
#print axioms Svgdx.Props.C10.scheduler_item_monotone
