/-
  C02 — Successful output is always well-formed XML with a proper SVG root.

  The ingredients of well-formedness, each for ALL strings / elements / configurations, about the writer
  model `Svgdx.Xml.Write` + `Svgdx.Xml.Escape` (tied to events.rs by the writer/events correspondence
  stream, byte for byte) and the root-attribute model `Svgdx.Doc.Root` (tied by the root_attrs stream of
  C08). Their COMPOSITION is in Props/C02Xml.lean (imported here, theorems listed at the end): an
  independent recogniser written from the XML 1.0 productions (`Xml.Spec`, not from the writer) accepts
  `write evs` for every balanced event list with XML names and unique attribute names
  (`output_wellformed`), in the strict form with the Char production for everything the guarded writer
  lets through (`output_wellformed_strict`, `guard_is_char_production`); the events the control
  skeleton emits for ANY document whose elements have XML names and unique attributes satisfy those
  hypotheses (`emitted_names_ok`, `emitted_attributes_unique` - an induction over the 15 functions with
  an invariant on the stored reuse templates), the root rewrite of `postprocess` keeps them and keeps
  the nesting (`postprocess_keeps_*`), hence `transform_written_wellformed_strict_and_fixed`: for every
  input document, evaluator, fuel and configuration, what a successful run writes is well-formed and
  is reproduced byte for byte by a second pass. Hypotheses are about the INPUT only. What remains to
  the expat oracle: the auto-style / defs injection (Theme strings, C20) and quick-xml itself.
-/
import Svgdx.Proofs.XmlEscape
import Svgdx.Proofs.XmlWrite
import Svgdx.Proofs.Balanced
import Svgdx.Props.C02Xml

namespace Svgdx.Props.C02
open Svgdx Xml

/-- **special characters are escaped exactly**: what a reader resolves from an escaped value or text is
    the original string -/
theorem escaping_exact (s : Str) : unescape (escape s) = some s := unescape_escape s

/-- **escaped text cannot break markup**: no `<`, `>`, `"` or `'` survives, so an attribute value cannot
    end early and character data cannot open a tag -/
theorem escaping_safe (s : Str) : ∀ c ∈ escape s, c ≠ '<' ∧ c ≠ '>' ∧ c ≠ '"' ∧ c ≠ '\'' := escape_safe s

/-- **comments are correctly delimited**: a generated comment never contains `--` and never ends in `-` -/
theorem comments_delimited (s : Str) : NoDD (commentSafe s) ∧ (commentSafe s).getLast? ≠ some '-' :=
  commentSafe_ok s

/-- **no element carries the same attribute twice**: every element the transformer emits has unique
    attribute names and no `class` among them (the class list is written once, after them) -/
theorem attributes_unique (e : Elem) :
    Attrs.NodupKeys (Ctl.adapt e).attrs ∧ cs!"class" ∉ Attrs.keys (Ctl.adapt e).attrs :=
  adapt_attrs_unique e

/-- the attribute map keeps names unique under every update (`AttrMap::insert`) -/
theorem attrmap_insert_unique (a : Attrs) (h : Attrs.NodupKeys a) (k v : Str) :
    Attrs.NodupKeys (Attrs.insert a k v) := Attrs.insert_nodup h k v

/-- **the root declares the SVG namespace and a version**: for every author attribute set, extent and
    configuration; the author's own attributes all survive -/
theorem root_namespace_version (cfg : Doc.RootCfg) (orig a : Attrs) (bb : Option Gen.BoundingBox)
    (hn : Attrs.NodupKeys orig) (h : Doc.rootAttrs cfg orig bb = some a) :
    Attrs.contains a cs!"xmlns" = true ∧ Attrs.contains a cs!"version" = true ∧
    (∀ k, Attrs.contains orig k = true → Attrs.contains a k = true) ∧ Attrs.NodupKeys a :=
  Doc.rootAttrs_namespace_version cfg orig a bb hn h

/-- **tags are properly nested in everything the transformer generates**: for every document, every
    evaluator and every fuel, a successful run of the control skeleton (elements, groups, containers,
    loops, conditionals, reuse, generated text and tspans, retried elements put back in document order)
    yields an event list in which every start tag is closed by an end tag of the same name, innermost
    first — as an inductive predicate and, equivalently, as accepted by the executable stack checker.
    A real SVG document is passed through as parsed, which is nested because the reader checked it. -/
theorem output_tags_nested {ρ : Type} (ev : Ctl.Evalr ρ) (fuel : Nat) (st : Ctl.St ρ) (ks : Ctl.Nodes)
    (evs : List Ctl.Ev) (bb : Option Gen.BoundingBox)
    (h : (Ctl.transformDoc ev fuel st ks).2.2 = .ok (evs, bb)) :
    Ctl.Balanced evs ∧ Ctl.check [] evs = some [] := by
  have hb : Ctl.Balanced evs := by
    unfold Ctl.transformDoc at h
    split at h
    · simp only [Except.ok.injEq, Prod.mk.injEq] at h
      rw [← h.1]
      exact Ctl.rawNodes_balanced ks
    · exact Ctl.processNodes_balanced ev fuel st ks evs bb h
  exact ⟨hb, hb.sound⟩

/-- the stack checker and the inductive notion agree, so the statement above is not an artefact of how
    "nested" was defined -/
theorem nested_iff_checker (evs : List Ctl.Ev) : Ctl.Balanced evs ↔ Ctl.check [] evs = some [] :=
  Ctl.balanced_iff_check evs

/-- the rendered start tag of an emitted element quotes every value with `"` and the value contains no `"` -/
theorem attr_value_has_no_quote (k v : Str) : ∀ c ∈ escape v, c ≠ '"' := fun c hc => (escape_safe v c hc).2.2.1

/-- worked instance: hostile strings in every position of a small event list -/
example : write [.start { name := cs!"g", attrs := [(cs!"data-x", cs!"a & b < \"c\"")], classes := [cs!"p", cs!"q"] },
                 .text cs!"1 < 2  \n", .comment cs!" a -- b -", .cdata cs!"x]]>y", .end_ cs!"g"]
    = cs!"<g data-x=\"a &amp; b &lt; &quot;c&quot;\" class=\"p q\">1 &lt; 2\n<!-- a - - b - --><![CDATA[x]]]]><![CDATA[>y]]></g>" := by
  decide +kernel

end Svgdx.Props.C02

#print axioms Svgdx.Props.C02.escaping_exact
#print axioms Svgdx.Props.C02.escaping_safe
#print axioms Svgdx.Props.C02.comments_delimited
#print axioms Svgdx.Props.C02.attributes_unique
#print axioms Svgdx.Props.C02.attrmap_insert_unique
#print axioms Svgdx.Props.C02.root_namespace_version
#print axioms Svgdx.Props.C02.attr_value_has_no_quote
#print axioms Svgdx.Props.C02.output_tags_nested
#print axioms Svgdx.Props.C02.nested_iff_checker
#print axioms Svgdx.Props.C02.output_wellformed
#print axioms Svgdx.Props.C02.output_wellformed_and_fixed
#print axioms Svgdx.Props.C02.output_wellformed_strict
#print axioms Svgdx.Props.C02.emitted_attributes_unique
#print axioms Svgdx.Props.C02.reader_elements_unique
#print axioms Svgdx.Props.C02.emitted_names_ok
#print axioms Svgdx.Props.C02.transform_output_wellformed_and_fixed
#print axioms Svgdx.Props.C02.demo_input_ok
#print axioms Svgdx.Props.C02.postprocess_keeps_nesting
#print axioms Svgdx.Props.C02.postprocess_invisible_to_checker
#print axioms Svgdx.Props.C02.checker_stack_is_open_depth
#print axioms Svgdx.Props.C02.postprocess_keeps_names_and_keys
#print axioms Svgdx.Props.C02.postprocess_nested_empty_root_closed
#print axioms Svgdx.Props.C02.postprocess_empty_root_encloses_tail
#print axioms Svgdx.Props.C02.postprocess_unclosed_root_encloses_document
#print axioms Svgdx.Props.C02.guard_is_char_production
#print axioms Svgdx.Props.C02.transform_written_wellformed_strict_and_fixed
