/-
  C19, extension (Svgdx/Proofs/TextWhole.lean): `textPosition` and `processTextAttr` AS A WHOLE, for every
  element (no hypothesis unless named).
   * `textPosition_eq_spec`: `textPosition e` equals `textPositionSpec e`, a function of the attributes and
     classes of `e` itself (`textShift` = text-dxy overridden by text-dx / text-dy, `textLoc` = text-loc,
     default `c`, `textOffset` = text-offset, default 1, `textOutside` = d-text-outside, else not
     d-text-inside and line / point / text, `textVertical`), errors in the code's order included;
   * (a) `anchor`: if `textPosition e = ok (e', tp)` then (tp.x, tp.y) = `locspec loc` (GENERATED) of the
     bounding box of `e` (of `e` without `transform` for a transformed <text>: `anchorElemOf`) +
     `offsetDelta loc (textOutside e) offset` + (text-dx, text-dy); tp.loc, tp.outside, tp.classes =
     d-text :: `anchorClasses`, and e' = `positioned e`. Every LocSpec: `loc` is whatever `parseLocSpec`
     gives, `locspec_table` spells out all named and edge forms (`t:25%` parses to TopEdge (Ratio 1/4)).
     `anchor_complete` is the converse; `bbox_congr`: the box reads name, content box and 16 attributes;
     `textLoc_default`, `textOffset_default`, `textShift_default`, `textShift_dx_dy`,
     `textOutside_class`, `textOutside_inside`, `textOutside_default`, `anchorElemOf_shape`: the cases;
   * (b) `anchor_inward` (0 < o ≤ half width and half height: inside the closed box) and `anchor_outward`
     (0 < o: not in the open box, strictly beyond each named side) for the eight `namedRim` locations;
   * (c) `frame`: `processTextAttr e = ok (shape, texts)` gives `shape = shapeOf e` = `e` with
     `Attrs.removeAll e.attrs movedKeys` (text, text-dx, text-dy, text-dxy, text-loc, text-offset,
     text-lsp, text-style, the 17 generated presentation attributes) and the classes not starting with
     `d-text-`; name, content box, empty flag untouched. `frame_filter`: under `NodupKeys e.attrs` (the
     AttrMap invariant, decidable) the attributes are `e.attrs.filter (key ∉ movedKeys)`, order kept;
   * (d) `text_elements`: texts = main :: spans; main holds the whole text value (`textString` of the
     attribute), is named `text`, its classes are the first-occurrence list of tp.classes (with (a):
     d-text :: `anchorClasses loc outside vertical`) ++ the non-`ignoreClass` classes of `e`; at most one line: no tspan; n ≥ 2 lines: n tspans
     named `tspan` with contents `spanContents pre vertical lines`. `clsFold_spec`, `foldl_presStep`:
     the two folds in closed form. `spans_give_lines`: undoing the zero-width space returns the lines.
  `processTextAttr_ok` + `procSpec` (= `procRest`, the code's tail, by `procRest_eq`) give the element
  itself: `presFold` of `textStage (mid e) tp ..`, which sets x / y to `fstr tp.x` / `fstr tp.y` and
  style to text-style.
  NOT proved: `getAttr x / y / style` of the finished text element read back through `Attrs.insert`
  (needs the reorder lemmas under NodupKeys; the value is pinned by `textStage` only); the x / dy
  attributes of the tspans; the nbsp substitution undone for `d-text-pre`; the join of `lines` back to
  the value. Observed: a value ending in a line break (`text="a\n"`) is ONE line whose text element
  holds "a" followed by the newline character (content = the value, not the line).
-/
/-
  C19, extension (Svgdx/Proofs/TextGen.lean): the hand model of text.rs that the C19 theorems are about
  (`Svgdx.Text`, Svgdx/Geom/Text.lean) EQUALS, for all inputs, the placement logic regenerated from the
  syn AST of /repo/src/text.rs on every run (`Svgdx.Gen.Text`, Svgdx/Gen/Text.lean).  A change to an arm, a
  class name, a sign, a guard or a constant in text.rs changes the generated definitions and breaks one of
  these equations.
   * `anchorAdjust_eq_gen`: the two `match text_anchor { ls if ls.is_top() => .. }` statements of
     `get_text_position` (generated `anchor_adjust`: the mutable state t_dx, t_dy, text_classes after them,
     as a function of the state before, the anchor, text-offset, `vertical`, `outside`) add
     `Text.offsetDelta` to (t_dx, t_dy) and append `Text.anchorClasses` to the classes;
   * `anchorClasses_eq_gen`: `Text.anchorClasses loc outside vertical` is the list of class names those
     statements push (is_top / is_bottom block first, then is_left / is_right, each with its
     `match (outside, vertical)` table), whatever the offset;
   * `textClasses_eq_gen`: `d-text ::` that list is what they leave when started from the code's
     `let mut text_classes = vec!["d-text"]`;
   * `offsetDelta_eq_gen`: `Text.offsetDelta loc outside offset` is what they add to the code's initial
     t_dx = t_dy = 0 (sign rules per side, inside vs outside), whatever the classes and `vertical`;
   * `firstLineOffset_eq_gen`: `Text.firstLineOffset` is `first_line_offset(line_count, line_spacing)`
     for `let first_line_offset = match (outside, vertical, text_loc) { .. }` with the local constants
     WRAP_DOWN / WRAP_UP / WRAP_MID (generated `line_offset .. 0`);
   * `laterLineOffset_eq_gen`: every later line gets `line_spacing`; `lineOffset_eq_gen`: the `off` of
     `Text.processTextAttr` for the tspan of index idx is the generated `line_offset`;
   * `tspanOffsetAttr_eq_gen`: the tspan attribute carrying it is `dx` for vertical text, else `dy`;
     `zwsp_nbsp_eq_gen`: the constants ZWSP / NBSP.
  Not regenerated (stays with the hand model, Props/C19x and the doc/text correspondence stream): the
  attribute parsing of `get_text_position` (text-dx / dy / dxy, text-loc, text-offset, the `outside` rule),
  the bounding-box lookup, `text_string`, and the element / class bookkeeping of `process_text_attr`.
-/
import Svgdx.Proofs.TextWhole
import Svgdx.Proofs.TextGen

#print axioms Svgdx.Props.C19x.textPosition_eq_spec
#print axioms Svgdx.Props.C19x.anchor
#print axioms Svgdx.Props.C19x.anchor_complete
#print axioms Svgdx.Props.C19x.bbox_congr
#print axioms Svgdx.Props.C19x.locspec_table
#print axioms Svgdx.Props.C19x.textLoc_default
#print axioms Svgdx.Props.C19x.textLoc_of
#print axioms Svgdx.Props.C19x.textOffset_default
#print axioms Svgdx.Props.C19x.textShift_default
#print axioms Svgdx.Props.C19x.textShift_dx_dy
#print axioms Svgdx.Props.C19x.textOutside_class
#print axioms Svgdx.Props.C19x.textOutside_inside
#print axioms Svgdx.Props.C19x.textOutside_default
#print axioms Svgdx.Props.C19x.anchorElemOf_shape
#print axioms Svgdx.Props.C19x.anchor_inward
#print axioms Svgdx.Props.C19x.anchor_outward
#print axioms Svgdx.Props.C19x.processTextAttr_ok
#print axioms Svgdx.Props.C19x.frame
#print axioms Svgdx.Props.C19x.frame_filter
#print axioms Svgdx.Props.C19x.clsFold_spec
#print axioms Svgdx.Props.C19x.foldl_presStep
#print axioms Svgdx.Props.C19x.text_elements
#print axioms Svgdx.Props.C19x.spans_give_lines
#print axioms Svgdx.Props.C19g.anchorAdjust_eq_gen
#print axioms Svgdx.Props.C19g.anchorClasses_eq_gen
#print axioms Svgdx.Props.C19g.textClasses_eq_gen
#print axioms Svgdx.Props.C19g.offsetDelta_eq_gen
#print axioms Svgdx.Props.C19g.firstLineOffset_eq_gen
#print axioms Svgdx.Props.C19g.laterLineOffset_eq_gen
#print axioms Svgdx.Props.C19g.lineOffset_eq_gen
#print axioms Svgdx.Props.C19g.tspanOffsetAttr_eq_gen
#print axioms Svgdx.Props.C19g.zwsp_nbsp_eq_gen
