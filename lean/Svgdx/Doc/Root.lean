/-
  Svgdx.Doc.Root — model of `Transformer::write_root_svg` (transform.rs): the attributes the root
  `<svg>` gets from the author's attributes, the accumulated extent and the configuration.
-/
import Svgdx.Geom.Resolve
namespace Svgdx
open Str Num Gen

namespace Doc

structure RootCfg where
  border : Nat := 5
  scale : Rat := 1
  svgStyle : Option Str := none
  localId : Option Str := none
deriving Repr, Inhabited

/-- `split_unit`: "32.5mm" ↦ (32.5, "mm"); digits, '.', '-' then the unit; a digit after the unit is an error -/
def splitUnit (s : Str) : Option (Rat × Str) :=
  let t := trim s
  let isNum := fun (c : Char) => isDigit c || c == '.' || c == '-'
  let value := t.takeWhile isNum
  let unit := t.dropWhile isNum
  if unit.any isNum then none
  else if value.isEmpty then none
  else (strp value).map fun v => (v, unit)

def svgNs : Str := cs!"http://www.w3.org/2000/svg"

/-- the extent the root advertises: accumulated box grown by the border, rounded outward -/
def extent (cfg : RootCfg) (bb : BoundingBox) : BoundingBox :=
  (bb.expand (cfg.border : Rat) (cfg.border : Rat)).round

/-- version / namespace / id / style: added only when the author did not supply them (style: replaced
    when `svg-style` is configured) -/
def rootBase (cfg : RootCfg) (orig : Attrs) : Attrs :=
  let a := orig
  let a := if orig.contains cs!"version" then a else a.insert cs!"version" cs!"1.1"
  let a := if orig.contains cs!"xmlns" then a else a.insert cs!"xmlns" svgNs
  let a := if orig.contains cs!"id" then a else
    match cfg.localId with
    | some i => a.insert cs!"id" i
    | none => a
  match cfg.svgStyle with
  | some s => a.insert cs!"style" s
  | none => a

/-- width / height / viewBox from the extent, for whatever the author left out -/
def rootGeom (cfg : RootCfg) (orig : Attrs) (bb0 : BoundingBox) (a : Attrs) : Option Attrs :=
  let bb := extent cfg bb0
  let w := bb.width
  let h := bb.height
  -- a degenerate extent has no aspect ratio: nothing is derived from a single dimension
  let hasRatio := decide (0 < w) && decide (0 < h)
  let a : Option Attrs :=
    match orig.get cs!"width", orig.get cs!"height" with
    | none, none =>
      some ((a.insert cs!"width" (fstr (w * cfg.scale) ++ cs!"mm")).insert cs!"height" (fstr (h * cfg.scale) ++ cs!"mm"))
    | some ow, none =>
      if hasRatio then (splitUnit ow).map fun (v, u) => a.insert cs!"height" (fstr (v / (w / h)) ++ u) else some a
    | none, some oh =>
      if hasRatio then (splitUnit oh).map fun (v, u) => a.insert cs!"width" (fstr (v * (w / h)) ++ u) else some a
    | some _, some _ => some a
  a.map fun a =>
    if orig.contains cs!"viewBox" then a
    else
      a.insert cs!"viewBox"
        (fstr bb.x1 ++ [' '] ++ fstr bb.y1 ++ [' '] ++ fstr w ++ [' '] ++ fstr h)

/-- a value the f32 arithmetic of the code holds exactly: dyadic with a small numerator -/
def f32Exact (x : Rat) : Bool :=
  decide (x.num.natAbs < 2 ^ 20) && decide (x.den ∣ 2 ^ 10)

/-- exactness monitor for the dimension derived from the aspect ratio: the code computes
    `v / (w / h)` (or `v * (w / h)`) in f32, the model on exact rationals; the two are only compared
    digit for digit when the ratio and the result are both held exactly (DESIGN §3.2) -/
def derivedExact (cfg : RootCfg) (orig : Attrs) (bbox : Option BoundingBox) : Bool :=
  match bbox with
  | none => true
  | some bb0 =>
    let bb := extent cfg bb0
    let w := bb.width
    let h := bb.height
    if !(decide (0 < w) && decide (0 < h)) then true
    else
      match orig.get cs!"width", orig.get cs!"height" with
      | some ow, none =>
        match splitUnit ow with
        | some (v, _) => f32Exact (w / h) && f32Exact (v / (w / h))
        | none => true
      | none, some oh =>
        match splitUnit oh with
        | some (v, _) => f32Exact (w / h) && f32Exact (v * (w / h))
        | none => true
      | _, _ => true

/-- `write_root_svg`: attributes of the emitted root element -/
def rootAttrs (cfg : RootCfg) (orig : Attrs) (bbox : Option BoundingBox) : Option Attrs :=
  match bbox with
  | none => some (rootBase cfg orig)
  | some bb0 => rootGeom cfg orig bb0 (rootBase cfg orig)

end Doc
end Svgdx
