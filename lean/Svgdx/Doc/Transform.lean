/-
  Svgdx.Doc.Transform — `Transformer::postprocess` (without auto-style injection): the first `<svg>` of
  the generated events becomes the root with synthesised attributes.
-/
import Svgdx.Doc.Root
import Svgdx.Ctl.Gen
namespace Svgdx
open Str Num Gen

namespace Doc
open Ctl

/-- `OutputList::partition("svg")` -/
def partitionSvg : List Ev → List Ev × Option (Elem × Bool) × List Ev
  | [] => ([], none, [])
  | ev :: rest =>
    let isSvg : Option (Elem × Bool) := match ev with
      | .start e => if e.name == cs!"svg" then some (e, false) else none
      | .empty e => if e.name == cs!"svg" then some (e, true) else none
      | _ => none
    match isSvg with
    | some p => ([], some p, rest)
    | none =>
      let (a, p, b) := partitionSvg rest
      (ev :: a, p, b)

/-- how many elements are open after these events (start tags minus end tags) -/
def openDepth (evs : List Ev) : Int :=
  evs.foldl (fun d e => match e with | .start _ => d + 1 | .end_ _ => d - 1 | _ => d) 0

/-- `postprocess` for non-real-SVG documents, auto-styles off -/
def postprocess (cfg : RootCfg) (evs : List Ev) (bbox : Option BoundingBox) : Option (List Ev) :=
  match partitionSvg evs with
  | (pre, some (root, wasEmpty), remain) =>
    (rootAttrs cfg root.attrs bbox).map fun a =>
      let start := Ev.start { name := cs!"svg", attrs := a, classes := root.classes }
      let close := if wasEmpty then [Ev.end_ cs!"svg"] else []
      -- an emptied `<svg/>` inside another element is closed right behind what is generated into it;
      -- at the top level (an empty or unclosed root) the rest of the document stays inside it
      if openDepth pre > 0 then pre ++ [start] ++ close ++ remain
      else pre ++ [start] ++ remain ++ close
  | (_, none, _) => some evs

/-- exactness monitor of `postprocess` (see `derivedExact`) -/
def postprocessExact (cfg : RootCfg) (evs : List Ev) (bbox : Option BoundingBox) : Bool :=
  match partitionSvg evs with
  | (_, some (root, _), _) => derivedExact cfg root.attrs bbox
  | (_, none, _) => true

end Doc
end Svgdx
