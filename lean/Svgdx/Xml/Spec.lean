/-
  Svgdx.Xml.Spec — an independent recogniser of well-formed XML `content`, written from the productions of
  XML 1.0 (fifth edition) and NOT from the writer (`Svgdx.Xml.Write`) or the reader model (`Svgdx.Xml.Raw`): it
  imports only the string helpers.

    [43] content      ::= CharData? ((element | Reference | CDSect | PI | Comment) CharData?)*
    [39] element      ::= EmptyElemTag | STag content ETag        WFC: Element Type Match
    [40] STag         ::= '<' Name (S Attribute)* S? '>'          WFC: Unique Att Spec
    [44] EmptyElemTag ::= '<' Name (S Attribute)* S? '/>'         WFC: Unique Att Spec
    [42] ETag         ::= '</' Name S? '>'
    [41] Attribute    ::= Name Eq AttValue                        WFC: No < in Attribute Values
    [25] Eq           ::= S? '=' S?
    [10] AttValue     ::= '"' ([^<&"] | Reference)* '"' | "'" ([^<&'] | Reference)* "'"
    [14] CharData     ::= [^<&]* - ([^<&]* ']]>' [^<&]*)
    [15] Comment      ::= '<!--' ((Char - '-') | ('-' (Char - '-')))* '-->'
    [18] CDSect       ::= '<![CDATA[' (Char* - (Char* ']]>' Char*)) ']]>'
    [67] Reference    ::= EntityRef | CharRef                     WFC: Entity Declared (no DTD: the five predefined)
    [66] CharRef      ::= '&#' [0-9]+ ';' | '&#x' [0-9a-fA-F]+ ';'
    [5]  Name         ::= NameStartChar (NameChar)*
    [3]  S            ::= (#x20 | #x9 | #xD | #xA)+

  Not covered (the writer model produces none of them): processing instructions, DOCTYPE, the XML declaration.
  Simplifications, both on the generous side and both stated here because they bound what acceptance means:
  every character ≥ U+0080 counts as a name character, and `wfContent` does not check the `Char` production [2]
  (which excludes most C0 control characters, U+FFFE/F) — `wfContentStrict` adds it — nor the "Legal Character"
  constraint on the VALUE of a character reference.
-/
import Svgdx.Base.Str
namespace Svgdx
open Str

namespace Xml
namespace Spec

/-- [3] S -/
def isS (c : Char) : Bool := c == ' ' || c == '\t' || c == '\r' || c == '\n'

/-- [4] NameStartChar: `:` | [A-Z] | `_` | [a-z] | (everything from U+0080 on) -/
def isNameStart (c : Char) : Bool := isAsciiAlpha c || c == '_' || c == ':' || 0x80 ≤ c.toNat

/-- [4a] NameChar: NameStartChar | `-` | `.` | [0-9] | … -/
def isNameChar (c : Char) : Bool := isNameStart c || isDigit c || c == '-' || c == '.'

/-- [5] Name -/
def isName : Str → Bool
  | [] => false
  | c :: r => isNameStart c && r.all isNameChar

/-- a leading Name (the longest one) and what follows it -/
def takeName (s : Str) : Option (Str × Str) :=
  match s with
  | [] => none
  | c :: _ => if isNameStart c then some (s.takeWhile isNameChar, s.dropWhile isNameChar) else none

def skipS (s : Str) : Str := s.dropWhile isS

def startsS (s : Str) : Bool :=
  match s with
  | c :: _ => isS c
  | [] => false

def isHexDigit (c : Char) : Bool := isDigit c || ('a' ≤ c && c ≤ 'f') || ('A' ≤ c && c ≤ 'F')

/-- one or more digits, then `;` -/
def digitsSemi (p : Char → Bool) (s : Str) : Bool :=
  !(s.takeWhile p).isEmpty && startsWith [';'] (s.dropWhile p)

/-- [67] what follows an `&` completes a Reference: one of the five predefined entities or a character reference -/
def startsRef (r : Str) : Bool :=
  startsWith cs!"lt;" r || startsWith cs!"gt;" r || startsWith cs!"amp;" r || startsWith cs!"apos;" r ||
  startsWith cs!"quot;" r ||
  (match stripPrefix cs!"#x" r with
   | some h => digitsSemi isHexDigit h
   | none =>
     match stripPrefix cs!"#" r with
     | some d => digitsSemi isDigit d
     | none => false)

/-- every `&` begins a Reference -/
def refsOk : Str → Bool
  | [] => true
  | c :: r => (c != '&' || startsRef r) && refsOk r

/-- `]]>` does not occur -/
def noCDEnd : Str → Bool
  | [] => true
  | c :: r => !startsWith cs!"]]>" (c :: r) && noCDEnd r

/-- [14] + [67]: a run of character data and references (the run is cut at the next `<` by the caller) -/
def charDataOk (t : Str) : Bool := refsOk t && noCDEnd t

/-- [10] after the opening quote `q`: the value up to the closing `q` has no `<` and only complete references;
    returns what follows the closing quote -/
def attValue (q : Char) (s : Str) : Option Str :=
  let v := s.takeWhile (· != q)
  match s.dropWhile (· != q) with
  | _ :: after => if v.all (· != '<') && refsOk v then some after else none
  | [] => none

/-- [41] Attribute: (name, what follows) -/
def attrSpec (s : Str) : Option (Str × Str) :=
  match takeName s with
  | none => none
  | some (n, r) =>
    match stripPrefix ['='] (skipS r) with
    | none => none
    | some r2 =>
      match skipS r2 with
      | q :: r3 => if q == '"' || q == '\'' then (attValue q r3).map (n, ·) else none
      | [] => none

/-- `(S Attribute)* S? ('>' | '/>')`: (attribute names in order, is-empty-element, what follows the tag) -/
def tagTail : Nat → Str → List Str → Option (List Str × Bool × Str)
  | 0, _, _ => none
  | fuel + 1, s, acc =>
    match stripPrefix ['>'] (skipS s) with
    | some after => some (acc.reverse, false, after)
    | none =>
      match stripPrefix cs!"/>" (skipS s) with
      | some after => some (acc.reverse, true, after)
      | none =>
        if startsS s then
          match attrSpec (skipS s) with
          | some (n, r) => tagTail fuel r (n :: acc)
          | none => none
        else none

/-- WFC: Unique Att Spec -/
def distinct : List Str → Bool
  | [] => true
  | x :: r => !r.contains x && distinct r

/-- [15] after `<!--`: a double hyphen may only be the one of the closing `-->`; returns what follows it -/
def commentEnd : Str → Option Str
  | [] => none
  | c :: r => if startsWith cs!"--" (c :: r) then stripPrefix cs!"-->" (c :: r) else commentEnd r

/-- [18] after `<![CDATA[`: up to the first `]]>`; returns what follows it -/
def cdataEnd : Str → Option Str
  | [] => none
  | c :: r =>
    match stripPrefix cs!"]]>" (c :: r) with
    | some after => some after
    | none => cdataEnd r

/-- [43] content, with the stack of open element names (innermost first); one construct per step -/
def content : Nat → List Str → Str → Bool
  | 0, _, _ => false
  | _ + 1, stack, [] => stack.isEmpty
  | fuel + 1, stack, c :: rest =>
    if c != '<' then
      charDataOk ((c :: rest).takeWhile (· != '<')) && content fuel stack ((c :: rest).dropWhile (· != '<'))
    else
      match stripPrefix cs!"!--" rest with
      | some r =>
        match commentEnd r with
        | some after => content fuel stack after
        | none => false
      | none =>
        match stripPrefix cs!"![CDATA[" rest with
        | some r =>
          match cdataEnd r with
          | some after => content fuel stack after
          | none => false
        | none =>
          match stripPrefix ['/'] rest with
          | some r =>
            -- [42] ETag, Element Type Match
            match takeName r with
            | some (n, r2) =>
              match stripPrefix ['>'] (skipS r2), stack with
              | some after, top :: stk => n == top && content fuel stk after
              | _, _ => false
            | none => false
          | none =>
            -- [40] STag / [44] EmptyElemTag
            match takeName rest with
            | some (n, r2) =>
              match tagTail (r2.length + 1) r2 [] with
              | some (names, isEmpty, after) =>
                distinct names && content fuel (if isEmpty then stack else n :: stack) after
              | none => false
            | none => false

/-- **well-formed `content`**: elements (balanced, matching names, unique attribute names, legal attribute
    values), character data with complete references and without `<`, `&`, `]]>`, comments without `--`, CDATA
    sections -/
def wfContent (s : Str) : Bool := content (s.length + 1) [] s

/-- [2] Char ::= #x9 | #xA | #xD | [#x20-#xD7FF] | [#xE000-#xFFFD] | [#x10000-#x10FFFF] -/
def isChar (c : Char) : Bool :=
  let n := c.toNat
  n == 9 || n == 10 || n == 13 || (0x20 ≤ n && n ≤ 0xD7FF) || (0xE000 ≤ n && n ≤ 0xFFFD) ||
    (0x10000 ≤ n && n ≤ 0x10FFFF)

/-- `wfContent` and, in addition, every character of the text is an XML `Char` (the production applies to the
    whole document, markup included, so this is the exact extra condition) -/
def wfContentStrict (s : Str) : Bool := s.all isChar && wfContent s

end Spec
end Xml
end Svgdx
