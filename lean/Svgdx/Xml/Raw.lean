/-
  Svgdx.Xml.Raw — the reader as a tokenizer: an input is cut into consecutive slices (events), each
  with its delimiters; pass-through writes the slices back. Mirrors quick-xml's event boundaries
  (third-party code: modelled, tied by the `read_events` correspondence stream, not verified).
-/
import Svgdx.Base.Str
namespace Svgdx
open Str

namespace Xml

inductive Kind where
  | text | start | empty | end_ | comment | cdata | pi | decl | doctype
deriving Repr, DecidableEq, Inhabited

def Kind.name : Kind → String
  | .text => "text" | .start => "start" | .empty => "empty" | .end_ => "end" | .comment => "comment"
  | .cdata => "cdata" | .pi => "pi" | .decl => "decl" | .doctype => "doctype"

/-- one event: kind, opening delimiter, content, closing delimiter -/
structure Tok where
  kind : Kind
  opener : Str
  content : Str
  closer : Str
deriving Repr, Inhabited

def Tok.render (t : Tok) : Str := t.opener ++ t.content ++ t.closer

/-- `(before, rest-after-pat)` at the first occurrence of `pat` -/
def splitAt (pat : Str) (s : Str) : Option (Str × Str) := splitOnSub pat s

/-- end of a tag: the first `>` outside quotes; returns (content, rest after `>`) -/
def scanTag : Str → Option Char → Str → Option (Str × Str)
  | [], _, _ => none
  | c :: cs, some q, acc => if c == q then scanTag cs none (c :: acc) else scanTag cs (some q) (c :: acc)
  | c :: cs, none, acc =>
    if c == '>' then some (acc.reverse, cs)
    else if c == '"' || c == '\'' then scanTag cs (some c) (c :: acc)
    else scanTag cs none (c :: acc)

/-- end of a DOCTYPE: `>` at bracket depth 0, outside quotes -/
def scanDoctype : Str → Nat → Option Char → Str → Option (Str × Str)
  | [], _, _, _ => none
  | c :: cs, d, some q, acc => if c == q then scanDoctype cs d none (c :: acc) else scanDoctype cs d (some q) (c :: acc)
  | c :: cs, d, none, acc =>
    if c == '>' && d == 0 then some (acc.reverse, cs)
    else if c == '[' then scanDoctype cs (d + 1) none (c :: acc)
    else if c == ']' then scanDoctype cs (d - 1) none (c :: acc)
    else if c == '"' || c == '\'' then scanDoctype cs d (some c) (c :: acc)
    else scanDoctype cs d none (c :: acc)

def isXmlDecl (content : Str) : Bool :=
  match stripPrefix cs!"xml" content with
  | some [] => true
  | some (c :: _) => isAsciiWs c
  | none => false

/-- next event and the remaining input; `none` at end of input or on an unterminated construct -/
def nextTok (s : Str) : Option (Tok × Str) :=
  match s with
  | [] => none
  | '<' :: rest =>
    match stripPrefix cs!"!--" rest with
    | some r => (splitAt cs!"-->" r).map fun (c, after) => (⟨.comment, cs!"<!--", c, cs!"-->"⟩, after)
    | none =>
      match stripPrefix cs!"![CDATA[" rest with
      | some r => (splitAt cs!"]]>" r).map fun (c, after) => (⟨.cdata, cs!"<![CDATA[", c, cs!"]]>"⟩, after)
      | none =>
        match stripPrefix cs!"!DOCTYPE" rest with
        | some r =>
          -- the reader drops the whitespace after the keyword from the event content
          (scanDoctype r 0 none []).map fun (c, after) =>
            (⟨.doctype, cs!"<!DOCTYPE" ++ c.takeWhile isAsciiWs, c.dropWhile isAsciiWs, ['>']⟩, after)
        | none =>
          match rest with
          | '?' :: r =>
            (splitAt cs!"?>" r).map fun (c, after) =>
              (⟨if isXmlDecl c then .decl else .pi, cs!"<?", c, cs!"?>"⟩, after)
          | '/' :: r =>
            -- the reader trims white space between the name and `>` from the event content
            (scanTag r none []).map fun (c, after) =>
              (⟨.end_, cs!"</", (c.reverse.dropWhile isAsciiWs).reverse,
                (c.reverse.takeWhile isAsciiWs).reverse ++ ['>']⟩, after)
          | _ =>
            (scanTag rest none []).map fun (c, after) =>
              match c.reverse with
              | '/' :: body => (⟨.empty, ['<'], body.reverse, cs!"/>"⟩, after)
              | _ => (⟨.start, ['<'], c, ['>']⟩, after)
  | _ =>
    let t := s.takeWhile (· != '<')
    some (⟨.text, [], t, []⟩, s.dropWhile (· != '<'))

/-- the whole input as events; `none` when some construct is unterminated -/
def tokenize : Nat → Str → Option (List Tok)
  | 0, [] => some []
  | 0, _ => none
  | _ + 1, [] => some []
  | fuel + 1, s =>
    match nextTok s with
    | none => none
    | some (t, rest) => (tokenize fuel rest).map (t :: ·)

def render (ts : List Tok) : Str := ts.flatMap Tok.render

/-- what the writer emits for an event read from the input: identical to the source slice, except that
    white space before the `>` of an end tag is dropped and the DOCTYPE keyword is followed by one blank -/
def Tok.renderW (t : Tok) : Str :=
  match t.kind with
  | .end_ => t.opener ++ t.content ++ ['>']
  | .doctype => cs!"<!DOCTYPE " ++ t.content ++ t.closer
  | _ => t.render

def renderW (ts : List Tok) : Str := ts.flatMap Tok.renderW

/-- pass-through of a document: read, write back -/
def passThrough (s : Str) : Option Str := (tokenize (s.length + 1) s).map render

/-- pass-through as written by the implementation's writer -/
def passThroughW (s : Str) : Option Str := (tokenize (s.length + 1) s).map renderW

end Xml
end Svgdx
