/-
  Svgdx.Xml.Escape — the escaping the writer applies (quick-xml `escape`: `< > & ' "`) and the reference
  resolution the reader applies (`unescape`: the five named entities and numeric character references),
  plus the two sanitisers added to events.rs: `comment_safe` and the CDATA split at `]]>`.
-/
import Svgdx.Base.Str
namespace Svgdx
open Str

namespace Xml

def escChar : Char → Str
  | '<' => cs!"&lt;"
  | '>' => cs!"&gt;"
  | '&' => cs!"&amp;"
  | '\'' => cs!"&apos;"
  | '"' => cs!"&quot;"
  | c => [c]

/-- quick-xml `escape` (used by `BytesText::new` and the `(&str, &str)` attribute conversion) -/
def escape : Str → Str
  | [] => []
  | c :: cs => escChar c ++ escape cs

def hexVal (c : Char) : Option Nat :=
  if '0' ≤ c && c ≤ '9' then some (c.toNat - '0'.toNat)
  else if 'a' ≤ c && c ≤ 'f' then some (c.toNat - 'a'.toNat + 10)
  else if 'A' ≤ c && c ≤ 'F' then some (c.toNat - 'A'.toNat + 10)
  else none

def parseNat (base : Nat) (s : Str) : Option Nat :=
  if s.isEmpty then none
  else s.foldl (fun acc c => acc.bind fun n => (hexVal c).bind fun d => if d < base then some (n * base + d) else none) (some 0)

/-- a reference body (between `&` and `;`) → the character it denotes -/
def resolveRef (body : Str) : Option Char :=
  if body == cs!"lt" then some '<'
  else if body == cs!"gt" then some '>'
  else if body == cs!"amp" then some '&'
  else if body == cs!"apos" then some '\''
  else if body == cs!"quot" then some '"'
  else
    match body with
    | '#' :: 'x' :: h => (parseNat 16 h).bind fun n => if n ≠ 0 && n.isValidChar then some (Char.ofNat n) else none
    | '#' :: d => (parseNat 10 d).bind fun n => if n ≠ 0 && n.isValidChar then some (Char.ofNat n) else none
    | _ => none

/-- quick-xml `unescape`: `none` on an unterminated or unknown reference -/
def unescape (s : Str) : Option Str :=
  go s.length s
where
  go : Nat → Str → Option Str
  | 0, [] => some []
  | 0, _ => none
  | _ + 1, [] => some []
  | fuel + 1, c :: rest =>
    if c == '&' then
      match breakOn (· == ';') rest with
      | (body, some (_, after)) =>
        match resolveRef body with
        | some ch => (go fuel after).map (ch :: ·)
        | none => none
      | (_, none) => none
    else (go fuel rest).map (c :: ·)

/-- `comment_safe`: a space goes between two consecutive dashes and after a trailing dash;
    `prevDash` = the output so far ends with '-' -/
def commentSafeFrom : Bool → Str → Str
  | pd, [] => if pd then [' '] else []
  | pd, c :: r => if c == '-' && pd then ' ' :: '-' :: commentSafeFrom true r else c :: commentSafeFrom (c == '-') r

def commentSafe (s : Str) : Str := commentSafeFrom false s

/-- quick-xml `BytesCData::escaped`: split so that no section contains `]]>` (`]]` ends one, `>` starts the next) -/
def cdataSplit (s : Str) : List Str :=
  go s.length s []
where
  go : Nat → Str → Str → List Str
  | 0, _, cur => [cur.reverse]
  | _ + 1, [], cur => [cur.reverse]
  | fuel + 1, ']' :: ']' :: '>' :: rest, cur => (']' :: ']' :: cur).reverse :: go fuel ('>' :: rest) []
  | fuel + 1, c :: rest, cur => go fuel rest (c :: cur)

end Xml
end Svgdx
