/-
  Svgdx.Xml.RefCheck — the READER's reference check (`src/events.rs`: `invalid_reference`, `is_entity_name`).

  `InputList::from_reader` calls `invalid_reference(content, has_doctype)` on the raw bytes of every Text, Start
  and Empty event (`has_doctype` becomes true once a DocType event has been read) and refuses the document when
  the answer is `Some(r)`; `check_doctype_entities` repeats the call with `has_doctype = false` on the same three
  kinds of event when a real-SVG document had a DOCTYPE (which is not written). That is what makes content which
  is copied to the output AS WRITTEN carry only well-formed references.

  The model follows the Rust code branch for branch:

      while let Some(pos) = rest.find('&') { rest = &rest[pos+1..]; …; }     ↦ the recursion of
                                        `invalidReference` (characters other than `&` are skipped; after an `&`
                                        the loop goes on with what FOLLOWS THE `&`, not with what follows the `;`)
      rest.find(';') else Some("&" + first 12 chars)                         ↦ `bodyUpToSemi`, `List.take 12`
      body.strip_prefix('#'), num.strip_prefix('x'), the two guards          ↦ `charRefCode`
      u32::from_str_radix / parse::<u32> (empty: error, overflow: error)     ↦ `parseU32`
      matches!(code, Some(0x9 | 0xA | 0xD | …))                              ↦ `isXmlCharCode`
      matches!(body, "lt" | …) || (has_doctype && is_entity_name(body))      ↦ `isPredefined`, `isEntityName`

  `str::find` works on bytes, but both needles are ASCII and UTF-8 never uses an ASCII byte inside a multi-byte
  sequence, so searching characters is the same; `chars().take(12)` counts characters, as `List.take` does.
  Core only (linked into `svgdx_model`).
-/
import Svgdx.Base.Str
namespace Svgdx
open Str

namespace Xml
namespace RefCheck

/-- `u8::is_ascii_digit` -/
def isAsciiDigit (c : Char) : Bool := 0x30 ≤ c.toNat && c.toNat ≤ 0x39

/-- `u8::is_ascii_hexdigit` -/
def isAsciiHexDigit (c : Char) : Bool :=
  isAsciiDigit c || (0x61 ≤ c.toNat && c.toNat ≤ 0x66) || (0x41 ≤ c.toNat && c.toNat ≤ 0x46)

/-- `char::to_digit(16)` on a hexadecimal digit -/
def digitVal (c : Char) : Nat :=
  if isAsciiDigit c then c.toNat - 0x30
  else if 0x61 ≤ c.toNat && c.toNat ≤ 0x66 then c.toNat - 0x61 + 10
  else c.toNat - 0x41 + 10

/-- the accumulation of `u32::from_str_radix` over digits already known to be digits of the radix:
    `checked_mul` then `checked_add`, an overflow of either is the error -/
def parseAcc (radix : Nat) : Nat → Str → Option Nat
  | acc, [] => some acc
  | acc, c :: r =>
    let n := acc * radix + digitVal c
    if n < 0x100000000 then parseAcc radix n r else none

/-- `u32::from_str_radix(s, radix).ok()` for `s` made of digits of the radix: the empty string is an error
    (`IntErrorKind::Empty`), a value above `u32::MAX` is an error (`PosOverflow`) -/
def parseU32 (radix : Nat) (s : Str) : Option Nat :=
  if s.isEmpty then none else parseAcc radix 0 s

/-- `match num.strip_prefix('x') { Some(hex) if all hexdigit => from_str_radix(hex, 16).ok(),
      None if all digit => num.parse::<u32>().ok(), _ => None }` — `"".bytes().all(..)` is true -/
def charRefCode (num : Str) : Option Nat :=
  match num with
  | 'x' :: hex => if hex.all isAsciiHexDigit then parseU32 16 hex else none
  | _ => if num.all isAsciiDigit then parseU32 10 num else none

/-- `0x9 | 0xA | 0xD | 0x20..=0xD7FF | 0xE000..=0xFFFD | 0x10000..=0x10FFFF` -/
def isXmlCharCode (n : Nat) : Bool :=
  n == 0x9 || n == 0xA || n == 0xD || (0x20 ≤ n && n ≤ 0xD7FF) || (0xE000 ≤ n && n ≤ 0xFFFD) ||
    (0x10000 ≤ n && n ≤ 0x10FFFF)

/-- `matches!(body, "lt" | "gt" | "amp" | "apos" | "quot")` -/
def isPredefined (body : Str) : Bool :=
  body == cs!"lt" || body == cs!"gt" || body == cs!"amp" || body == cs!"apos" || body == cs!"quot"

/-- the closure `start` of `is_entity_name` -/
def nameStart (c : Char) : Bool :=
  let n := c.toNat
  n == 0x3A || (0x41 ≤ n && n ≤ 0x5A) || n == 0x5F || (0x61 ≤ n && n ≤ 0x7A) ||
  (0xC0 ≤ n && n ≤ 0xD6) || (0xD8 ≤ n && n ≤ 0xF6) || (0xF8 ≤ n && n ≤ 0x2FF) ||
  (0x370 ≤ n && n ≤ 0x37D) || (0x37F ≤ n && n ≤ 0x1FFF) || (0x200C ≤ n && n ≤ 0x200D) ||
  (0x2070 ≤ n && n ≤ 0x218F) || (0x2C00 ≤ n && n ≤ 0x2FEF) || (0x3001 ≤ n && n ≤ 0xD7FF) ||
  (0xF900 ≤ n && n ≤ 0xFDCF) || (0xFDF0 ≤ n && n ≤ 0xFFFD) || (0x10000 ≤ n && n ≤ 0xEFFFF)

/-- the closure passed to `chars.all` in `is_entity_name` -/
def nameChar (c : Char) : Bool :=
  let n := c.toNat
  nameStart c ||
    (n == 0x2D || n == 0x2E || (0x30 ≤ n && n ≤ 0x39) || n == 0xB7 || (0x300 ≤ n && n ≤ 0x36F) ||
      (0x203F ≤ n && n ≤ 0x2040))

/-- `is_entity_name`: `chars.next().is_some_and(start) && chars.all(..)` -/
def isEntityName : Str → Bool
  | [] => false
  | c :: r => nameStart c && r.all nameChar

/-- `rest.find(';')` and `&rest[..end]`: the text before the first `;`, `none` when there is no `;` -/
def bodyUpToSemi : Str → Option Str
  | [] => none
  | c :: r => if c == ';' then some [] else (bodyUpToSemi r).map (c :: ·)

/-- the value `well_formed` for a body -/
def wellFormed (body : Str) (hasDoctype : Bool) : Bool :=
  match body with
  | '#' :: num =>
    match charRefCode num with
    | some code => isXmlCharCode code
    | none => false
  | _ => isPredefined body || (hasDoctype && isEntityName body)

/-- `invalid_reference(s, has_doctype)` -/
def invalidReference : Str → Bool → Option Str
  | [], _ => none
  | c :: rest, hasDoctype =>
    if c == '&' then
      match bodyUpToSemi rest with
      | none => some ('&' :: rest.take 12)
      | some body =>
        if wellFormed body hasDoctype then invalidReference rest hasDoctype
        else some ('&' :: (body ++ [';']))
    else invalidReference rest hasDoctype

/-- `content.contains(pat)` for a non-empty pattern (substring search; the patterns used are ASCII) -/
def containsSub (pat : Str) : Str → Bool
  | [] => pat.isEmpty
  | c :: r => startsWith pat (c :: r) || containsSub pat r

/-- the whole per-event check of `InputList::from_reader` on a Text (`isText`) or Start / Empty event:
    `invalid_reference(&content, has_doctype)` must be `None`, then
    `let stray = if Text { "]]>" } else { "<" }; if content.contains(stray) { Err }` -/
def readerAccepts (isText : Bool) (content : Str) (hasDoctype : Bool) : Bool :=
  match invalidReference content hasDoctype with
  | some _ => false
  | none => !containsSub (if isText then cs!"]]>" else cs!"<") content

end RefCheck

export RefCheck (isEntityName invalidReference readerAccepts)

end Xml
end Svgdx
