/-
  Svgdx.Xml.Write — model of `OutputList::write_to` (events.rs): text coalescing, blank-line trimming,
  escaping of character data and attribute values, comment and CDATA sanitising.
-/
import Svgdx.Xml.Escape
import Svgdx.Ctl.Gen
namespace Svgdx
open Str

namespace Xml

/-- `blank_line_remover`: trailing whitespace of every newline-terminated line is dropped -/
def blankLineRemover (s : Str) : Str :=
  go s.length s
where
  go : Nat → Str → Str
  | 0, r => r
  | fuel + 1, r =>
    match breakOn (· == '\n') r with
    | (line, some (_, rest)) => trimEnd line ++ ['\n'] ++ go fuel rest
    | (line, none) => line

def attrText (k v : Str) : Str := [' '] ++ k ++ cs!"=\"" ++ escape v ++ ['"']

/-- `into_bytesstart`: attributes in AttrMap order, then `class` -/
def startContent (e : Elem) : Str :=
  e.name ++ e.attrs.flatMap (fun kv => attrText kv.1 kv.2) ++
    (if e.classes.isEmpty then [] else attrText cs!"class" (intercalate [' '] e.classes))

def renderEv : Ctl.Ev → Str
  | .start e => ['<'] ++ startContent e ++ ['>']
  | .empty e => ['<'] ++ startContent e ++ cs!"/>"
  | .end_ n => cs!"</" ++ n ++ ['>']
  | .text t => escape (blankLineRemover t)
  | .comment c => cs!"<!--" ++ commentSafe c ++ cs!"-->"
  | .cdata c => (cdataSplit c).flatMap fun part => cs!"<![CDATA[" ++ part ++ cs!"]]>"

/-- consecutive text events are coalesced before trimming and escaping -/
def coalesce : List Ctl.Ev → List Ctl.Ev
  | .text a :: .text b :: rest => coalesce (.text (a ++ b) :: rest)
  | e :: rest => e :: coalesce rest
  | [] => []
termination_by l => l.length

/-- `write_to`; empty text buffers are not written -/
def write (evs : List Ctl.Ev) : Str :=
  (coalesce evs).flatMap fun e =>
    match e with
    | .text [] => []
    | e => renderEv e

/-- a character XML 1.0 can contain: the guard of `write_to` (`XmlCharGuard`) refuses the C0 controls other
    than tab, LF, CR and U+FFFE / U+FFFF -/
def xmlChar (c : Char) : Bool :=
  !((c.toNat < 0x20 && c != '\t' && c != '\n' && c != '\r') || c.toNat == 0xFFFE || c.toNat == 0xFFFF)

/-- `write_to` as the caller sees it: the bytes, or an error when they would hold a character that XML
    cannot contain -/
def writeChecked (evs : List Ctl.Ev) : Option Str :=
  let out := write evs
  if out.all xmlChar then some out else none

end Xml
end Svgdx
