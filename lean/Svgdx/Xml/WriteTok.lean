/-
  Svgdx.Xml.WriteTok — what the reader's tokenizer (`Svgdx.Xml.Raw`) is expected to see in the writer's output
  (`Svgdx.Xml.Write`): the token list of an event list, and the (weak) condition on element / attribute NAMES under
  which this expectation is a theorem (`Svgdx.Proofs.XmlRoundTrip.tokenize_write`). Nothing is required of text,
  comment, CDATA or attribute VALUES.
-/
import Svgdx.Xml.Write
import Svgdx.Xml.Raw
namespace Svgdx
open Str

namespace Xml

/-- a character that neither ends a tag nor opens a quoted value inside a tag -/
def tagSafe (c : Char) : Bool := c != '>' && c != '"' && c != '\''

/-- an element name the tokenizer reads back as written: non-empty, does not begin like a comment / CDATA /
    DOCTYPE / PI / end tag (`!`, `?`, `/`), contains no `>`, `"`, `'` -/
def nameW (n : Str) : Bool :=
  match n with
  | [] => false
  | h :: _ => h != '!' && h != '?' && h != '/' && n.all tagSafe

def keysW (a : Attrs) : Bool := a.all fun kv => kv.1.all tagSafe

def noTrailingWs (n : Str) : Bool :=
  match n.getLast? with
  | some c => !isAsciiWs c
  | none => true

/-- the per-event condition: names only.
    * start / empty: `nameW` name, attribute names without `>`, `"`, `'` (they may be empty, contain `=`, blanks …);
    * a start tag WITHOUT attributes and classes must not end in `/` (it would read back as an empty-element tag);
    * end: no `>`, `"`, `'` and no trailing ASCII white space (the reader moves that into the closer, the writer
      drops it);
    * text, comment, cdata: nothing. -/
def writableEv : Ctl.Ev → Bool
  | .start e => nameW e.name && keysW e.attrs &&
      (!(e.attrs.isEmpty && e.classes.isEmpty) || e.name.getLast? != some '/')
  | .empty e => nameW e.name && keysW e.attrs
  | .end_ n => n.all tagSafe && noTrailingWs n
  | _ => true

def Writable (evs : List Ctl.Ev) : Prop := evs.all writableEv = true

instance (evs : List Ctl.Ev) : Decidable (Writable evs) := by unfold Writable; infer_instance

def cdataTok (part : Str) : Tok := ⟨.cdata, cs!"<![CDATA[", part, cs!"]]>"⟩

/-- the tokens of one written event: one per event, except that a text event whose written form is empty gives
    none and a CDATA event gives one per section of `cdataSplit` -/
def toksOf : Ctl.Ev → List Tok
  | .start e => [⟨.start, ['<'], startContent e, ['>']⟩]
  | .empty e => [⟨.empty, ['<'], startContent e, cs!"/>"⟩]
  | .end_ n => [⟨.end_, cs!"</", n, ['>']⟩]
  | .text t => if escape (blankLineRemover t) = [] then [] else [⟨.text, [], escape (blankLineRemover t), []⟩]
  | .comment c => [⟨.comment, cs!"<!--", commentSafe c, cs!"-->"⟩]
  | .cdata c => (cdataSplit c).map cdataTok

/-- the expected token list of `write evs` -/
def tokensOf (evs : List Ctl.Ev) : List Tok := (coalesce evs).flatMap toksOf

end Xml
end Svgdx
