/-
  Svgdx.Path.Scan — model of path.rs: the path-data scanner that computes the end-point hull of
  a `d` attribute. Loops take fuel; the theorems of C01 show `length + 1` is always enough.
-/
import Svgdx.Base.Num
import Svgdx.Base.Rq
import Svgdx.Gen.Geometry
namespace Svgdx
open Str Num Gen

namespace Path

inductive Outcome (α : Type) where
  | ok (a : α)
  | err
  | outOfFuel
deriving Repr, Inhabited, DecidableEq

def commandChars : Str := cs!"MmLlHhVvZzCcSsQqTtAa"

def skipWs (s : Str) : Str := s.dropWhile isAsciiWs

def skipWspComma (s : Str) : Str :=
  match skipWs s with
  | ',' :: r => skipWs r
  | r => r

/-- `read_number`: one SVG number (`Num.scanNumber`), then Rust's `f32::from_str` on it -/
def readNumber (s : Str) : Option (Rat × Str) :=
  if s.isEmpty then none
  else
    let (tok, r) := scanNumber s
    match parseF32 tok with
    | .num q => some (q, skipWspComma r)
    | _ => none

/-- `read_flag`: a single `0` or `1` -/
def readFlag (s : Str) : Option Str :=
  match s with
  | '0' :: r => some (skipWspComma r)
  | '1' :: r => some (skipWspComma r)
  | _ => none

def readCoord (s : Str) : Option ((Rat × Rat) × Str) :=
  match readNumber s with
  | none => none
  | some (x, r1) =>
    match readNumber (skipWspComma r1) with
    | none => none
    | some (y, r2) => some ((x, y), skipWspComma r2)

structure PState where
  rest : Str
  position : Option (Rat × Rat) := none
  startPos : Option (Rat × Rat) := none
  command : Option Char := none
  minX : Rat := 0
  minY : Rat := 0
  maxX : Rat := 0
  maxY : Rat := 0
deriving Repr, Inhabited

def PState.update (st : PState) (pos : Rat × Rat) (rest : Str) : PState :=
  let start := match st.startPos with
    | none => some pos
    | some s => some s
  match st.position with
  | none => { st with rest := rest, position := some pos, startPos := start,
                      minX := pos.1, minY := pos.2, maxX := pos.1, maxY := pos.2 }
  | some _ => { st with rest := rest, position := some pos, startPos := start,
                        minX := Rq.min st.minX pos.1, minY := Rq.min st.minY pos.2,
                        maxX := Rq.max st.maxX pos.1, maxY := Rq.max st.maxY pos.2 }

def PState.cur (st : PState) : Rat × Rat := st.position.getD (0, 0)

/-- the command in force for this instruction and the input after an explicit command letter -/
def fetchCommand (st : PState) : Option (Char × Str) :=
  match st.rest with
  | [] => none
  | c :: r =>
    if commandChars.contains c then some (c, skipWspComma r)
    else
      match st.command with
      | some k => some (k, st.rest)
      | none => none

/-- `process_instruction` -/
def step (st : PState) : Option PState :=
  match fetchCommand st with
  | none => none
  | some (cmd, r) =>
    -- a written moveto starts a new subpath: a later closepath returns to its first point (further
    -- coordinate pairs after the moveto are implicit linetos and do not move the start)
    let newSub := (cmd == 'M' || cmd == 'm') &&
      (match st.rest with | c :: _ => commandChars.contains c | [] => false)
    let st := { st with command := some cmd, rest := r }
    let mark := fun (s : PState) => if newSub then { s with startPos := s.position } else s
    let abs1 := fun (s : Str) => (readCoord s).map fun (xy, r') => mark (st.update xy r')
    let rel1 := fun (s : Str) => (readCoord s).map fun (d, r') =>
      mark (st.update (st.cur.1 + d.1, st.cur.2 + d.2) r')
    let skipCoords := fun (n : Nat) (s : Str) =>
      (List.range n).foldl (fun acc _ => acc.bind fun s' => (readCoord s').map (·.2)) (some s)
    let skipNums := fun (n : Nat) (s : Str) =>
      (List.range n).foldl (fun acc _ => acc.bind fun s' => (readNumber s').map (·.2)) (some s)
    if cmd == 'M' || cmd == 'L' || cmd == 'T' then abs1 r
    else if cmd == 'm' || cmd == 'l' || cmd == 't' then rel1 r
    else if cmd == 'H' then (readNumber r).map fun (x, r') => st.update (x, st.cur.2) r'
    else if cmd == 'h' then (readNumber r).map fun (x, r') => st.update (st.cur.1 + x, st.cur.2) r'
    else if cmd == 'V' then (readNumber r).map fun (y, r') => st.update (st.cur.1, y) r'
    else if cmd == 'v' then (readNumber r).map fun (y, r') => st.update (st.cur.1, st.cur.2 + y) r'
    else if cmd == 'Z' || cmd == 'z' then
      -- closepath takes no arguments and cannot be repeated implicitly: the command is forgotten
      st.startPos.map fun p => { (st.update p r) with command := none }
    else if cmd == 'C' then (skipCoords 2 r).bind abs1
    else if cmd == 'c' then (skipCoords 2 r).bind rel1
    else if cmd == 'S' || cmd == 'Q' then (skipCoords 1 r).bind abs1
    else if cmd == 's' || cmd == 'q' then (skipCoords 1 r).bind rel1
    else if cmd == 'A' then ((((skipCoords 1 r).bind (skipNums 1)).bind readFlag).bind readFlag).bind abs1
    else if cmd == 'a' then ((((skipCoords 1 r).bind (skipNums 1)).bind readFlag).bind readFlag).bind rel1
    else none

def run : Nat → PState → Outcome PState
  | 0, _ => .outOfFuel
  | fuel + 1, st =>
    if st.rest.isEmpty then .ok st
    else
      match step st with
      | none => .err
      | some st' => run fuel st'

def PState.bbox (st : PState) : Option BoundingBox :=
  match st.startPos with
  | some _ => some ⟨st.minX, st.minY, st.maxX, st.maxY⟩
  | none => none

/-- `path_bbox` on the `d` string, with the input-linear fuel the C01 theorem justifies -/
def pathBBox (d : Str) : Outcome (Option BoundingBox) :=
  match run (d.length + 2) { rest := skipWs d } with
  | .ok st => .ok st.bbox
  | .err => .err
  | .outOfFuel => .outOfFuel

end Path
end Svgdx
