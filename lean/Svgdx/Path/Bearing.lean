/-
  Svgdx.Path.Bearing — model of bearing.rs: the `B` / `b` bearing commands of (obsolete) SVG2 path
  data, rewritten to plain path commands (`process_path_bearing`).

  The scanner pieces (`skipWs`, `skipWspComma`, the number grammar `Num.scanNumber`) are those of
  `Svgdx.Path.Scan` (the default methods of the `PathSyntax` trait, shared by both scanners); what
  differs is the command-letter set (`BearingPathSyntax::at_command` adds `B` and `b`) and that the
  numbers are kept abstract: the geometry is `f32` trigonometry, so the model is generic in the number
  operations `o : Expr.Ops α σ` (instantiated with `Float32` by the driver, `Driver.f32Ops`).

  The main loop takes fuel; `Svgdx.Proofs.Bearing` shows `length + 1` is always enough.
  Core-only (no Mathlib, no Std).
-/
import Svgdx.Path.Scan
import Svgdx.Expr.Token
namespace Svgdx
open Str Num

namespace Bearing
open Path (skipWs skipWspComma)
open Expr (Ops)

/-- the two error classes `process_path_bearing` can return -/
inductive Fail where
  | parse        -- SvgdxError::ParseError: "Ran out of data!" (`check_not_end`), `ParseFloatError`
  | invalidData  -- SvgdxError::InvalidData: "Invalid path command" (`read_command`)
deriving DecidableEq, Repr, Inhabited

inductive Outcome where
  | ok (out : Str)
  | parseError
  | invalidData
  | outOfFuel      -- model artefact; never produced with the fuel `processPathBearing` supplies
deriving DecidableEq, Repr, Inhabited

/-- `BearingPathSyntax::at_command`: the SVG command letters plus `B` and `b` -/
def commandChars : Str := cs!"MmBbLlHhVvZzCcSsQqTtAa"

def isCommand (c : Char) : Bool := commandChars.contains c

/-- `PathSyntax::read_number` up to the final `s.parse()`: the text of one SVG number and the input
    after the trailing `skip_wsp_comma`. `none` = "Ran out of data!" -/
def readNumberText (s : Str) : Option (Str × Str) :=
  if s.isEmpty then none
  else
    let (tok, r) := scanNumber s
    some (tok, skipWspComma r)

/-- `PathSyntax::read_number`: `none` = ParseError (out of data, or `str::parse::<f32>` rejects the text).
    `"".parse::<f32>()` is an error for the real `f32`; the model states that here rather than leaving
    it to the instance `o`, because progress of the loop depends on it. -/
def readNumber {α σ : Type} (o : Ops α σ) (s : Str) : Option (α × Str) :=
  match readNumberText s with
  | none => none
  | some (tok, r) =>
    if tok.isEmpty then none
    else
      match o.parse tok with
      | some x => some (x, r)
      | none => none

/-- `PathSyntax::read_coord` -/
def readCoord {α σ : Type} (o : Ops α σ) (s : Str) : Option ((α × α) × Str) :=
  match readNumber o s with
  | none => none
  | some (x, r1) =>
    match readNumber o (skipWspComma r1) with
    | none => none
    | some (y, r2) => some ((x, y), skipWspComma r2)

/-- `PathBearing`; the output is kept reversed (`String::push` is a cons) -/
structure BState (α : Type) where
  rest : Str
  outRev : Str
  bearing : α
  command : Option Char

def BState.output {α : Type} (st : BState α) : Str := st.outRev.reverse

/-- `self.output.push_str(chunk)` -/
def emit (outRev chunk : Str) : Str := chunk.reverse ++ outRev

/-- the head of `process_instruction`: the command in force and the input after an explicit command
    letter (`read_command`: letter, then `skip_wsp_comma`) -/
def fetchCommand {α : Type} (st : BState α) : Except Fail (Char × Str) :=
  match st.rest with
  | [] => .error .parse      -- `at_command` at the end of the data; `evaluate` never gets here
  | c :: r =>
    if isCommand c then .ok (c, skipWspComma r)
    else
      match st.command with
      | some k => .ok (k, st.rest)
      | none => .error .invalidData

/-- `self.bearing != 0.` -/
def nonZero {α σ : Type} (o : Ops α σ) (b : α) : Bool := !(o.eq b o.zero)

def notCommand (c : Char) : Bool := !(isCommand c)

/-- `PathBearing::process_instruction` -/
def step {α σ : Type} (o : Ops α σ) (st : BState α) : Except Fail (BState α) :=
  match fetchCommand st with
  | .error e => .error e
  | .ok (cmd, r) =>
    let st := { st with command := some cmd, rest := r }
    if cmd == 'B' then
      match readNumber o r with
      | none => .error .parse
      | some (b, r') => .ok { st with bearing := b, rest := r' }
    else if cmd == 'b' then
      match readNumber o r with
      | none => .error .parse
      | some (b, r') => .ok { st with bearing := o.add st.bearing b, rest := r' }
    else if (cmd == 'm' || cmd == 'l') && nonZero o st.bearing then
      match readCoord o r with
      | none => .error .parse
      | some ((dx, dy), r') =>
        let cosb := o.cos (o.toRadians st.bearing)
        let sinb := o.sin (o.toRadians st.bearing)
        -- as written in the source: `dx * cosb + dy * sinb`, `dx * sinb + dy * cosb`
        let bdx := o.fstr (o.add (o.mul dx cosb) (o.mul dy sinb))
        let bdy := o.fstr (o.add (o.mul dx sinb) (o.mul dy cosb))
        -- `push(cmd)` then `"{bdx} {bdy}"`: nothing between the letter and the first number
        .ok { st with rest := r', outRev := emit st.outRev (cmd :: (bdx ++ ' ' :: bdy)) }
    else if (cmd == 'h' || cmd == 'v') && nonZero o st.bearing then
      match readNumber o r with
      | none => .error .parse
      | some (offset, r') =>
        let bdx := o.fstr (o.mul offset (o.cos (o.toRadians st.bearing)))
        let bdy := o.fstr (o.mul offset (o.sin (o.toRadians st.bearing)))
        let args := if cmd == 'h' then bdx ++ ' ' :: bdy else bdy ++ ' ' :: bdx
        .ok { st with rest := r', outRev := emit st.outRev ('l' :: args) }
    else
      -- copy to output: the command letter (also when it was only remembered), then every character
      -- up to the next command letter or the end
      .ok { st with rest := r.dropWhile notCommand,
                    outRev := emit st.outRev (cmd :: r.takeWhile notCommand) }

def initial {α σ : Type} (o : Ops α σ) (d : Str) : BState α :=
  { rest := skipWs d, outRev := [], bearing := o.zero, command := none }

/-- the loop of `PathBearing::evaluate` -/
def run {α σ : Type} (o : Ops α σ) : Nat → BState α → Outcome
  | 0, _ => .outOfFuel
  | fuel + 1, st =>
    if st.rest.isEmpty then .ok st.output
    else
      match step o st with
      | .error .parse => .parseError
      | .error .invalidData => .invalidData
      | .ok st' => run o fuel st'

/-- `process_path_bearing`, with the input-linear fuel `Svgdx.Proofs.Bearing` justifies -/
def processPathBearing {α σ : Type} (o : Ops α σ) (d : Str) : Outcome :=
  run o (d.length + 1) (initial o d)

/-- the bearing after the whole data was processed (the observable of `test_path_bearing`) -/
def runBearing {α σ : Type} (o : Ops α σ) : Nat → BState α → Option α
  | 0, _ => none
  | fuel + 1, st =>
    if st.rest.isEmpty then some st.bearing
    else
      match step o st with
      | .error _ => none
      | .ok st' => runBearing o fuel st'

def finalBearing {α σ : Type} (o : Ops α σ) (d : Str) : Option α :=
  runBearing o (d.length + 1) (initial o d)

/-!
  What a path WITHOUT bearing commands is rewritten to (`Svgdx.Proofs.Bearing.processPathBearing_noBearing`):
  not the input verbatim — `read_command` swallows the separators after each command letter
  (`skip_wsp_comma`: whitespace, at most one comma, whitespace), so `"M 0 0 L 1,2"` becomes `"M0 0 L1,2"`.
  `normalize` is that rewriting as a one-pass scan.
-/
inductive Phase where
  | copy      -- inside the arguments of a command
  | sep1      -- after a command letter: whitespace is dropped, one comma may follow
  | sep2      -- after that comma: whitespace is dropped
deriving DecidableEq, Repr

def normalize : Phase → Str → Str
  | _, [] => []
  | ph, c :: r =>
    if isCommand c then c :: normalize .sep1 r
    else
      match ph with
      | .copy => c :: normalize .copy r
      | .sep1 =>
        if isAsciiWs c then normalize .sep1 r
        else if c == ',' then normalize .sep2 r
        else c :: normalize .copy r
      | .sep2 =>
        if isAsciiWs c then normalize .sep2 r
        else c :: normalize .copy r

end Bearing
end Svgdx
