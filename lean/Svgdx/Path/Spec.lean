/-
  Svgdx.Path.Spec — SVG 1.1 path data (`d` attribute) as an abstract syntax tree, independent of the
  scanner of `Svgdx.Path.Scan`: all commands `M L H V Z C S Q T A`, absolute or relative.

  A path is a list of segments. A segment is one command applied to one group of arguments (one
  coordinate pair for `M L T`, one number for `H V`, nothing for `Z`, three pairs for `C`, two for `S Q`,
  `rx ry rotation large-arc-flag sweep-flag x y` for `A`).
  Its command letter is written, or - as the grammar allows for a repeated command - omitted; after a
  `moveto` the omitted letter is `L` / `l`. Every token is followed by its separator: the (optional)
  whitespace after a command letter, the (optional) comma-whitespace after a number or an arc flag.

  `renderPath` is the spelling, `pathLegal` the well-formedness condition, `visited` the list of end points
  in the order they are reached, `hull` their bounding box.  `closepath` returns to the first point of the
  current subpath, i.e. the point of the last (written) moveto; the coordinate pairs that follow a moveto
  without a letter are linetos and do not move that point ("M1 1 2 2 z" closes to (1, 1)).

  Proofs are in Svgdx/Proofs/PathSpec.lean.
-/
import Svgdx.Base.NumSpec
import Svgdx.Base.Rq
import Svgdx.Gen.Geometry
namespace Svgdx
open Str Gen NumSpec

namespace PathSpec

inductive Cmd where
  | M | L | H | V | Z | C | S | Q | T | A
deriving Repr, DecidableEq, Inhabited

/-- the command letter: upper case absolute, lower case relative -/
def Cmd.letter (c : Cmd) (rel : Bool) : Char :=
  match c, rel with
  | .M, false => 'M' | .M, true => 'm'
  | .L, false => 'L' | .L, true => 'l'
  | .H, false => 'H' | .H, true => 'h'
  | .V, false => 'V' | .V, true => 'v'
  | .Z, false => 'Z' | .Z, true => 'z'
  | .C, false => 'C' | .C, true => 'c'
  | .S, false => 'S' | .S, true => 's'
  | .Q, false => 'Q' | .Q, true => 'q'
  | .T, false => 'T' | .T, true => 't'
  | .A, false => 'A' | .A, true => 'a'

/-- how many numbers one application of the command takes (the two flags of an arc are not numbers) -/
def Cmd.arity : Cmd → Nat
  | .M | .L | .T => 2
  | .H | .V => 1
  | .Z => 0
  | .C => 6
  | .S | .Q => 4
  | .A => 5

/-- an argument: a number, or one of the two flags of an arc (a single `0` or `1`) -/
inductive Tok where
  | num (n : SvgNumber)
  | flag (b : Bool)
deriving Repr, DecidableEq, Inhabited

def Tok.render : Tok → Str
  | .num n => n.render
  | .flag b => [if b then '1' else '0']

def Tok.isNum : Tok → Bool
  | .num _ => true
  | .flag _ => false

/-- an argument and the separator written after it -/
abbrev PItem := Tok × Str

def renderArgs : List PItem → Str
  | [] => []
  | (t, sep) :: r => t.render ++ (sep ++ renderArgs r)

structure Seg where
  cmd : Cmd
  rel : Bool := false
  /-- `some s`: the command letter is written and followed by `s`; `none`: the letter is omitted -/
  written : Option Str := some []
  /-- the arguments, each with the separator that follows it -/
  args : List PItem
deriving Repr, Inhabited

def Seg.render (s : Seg) : Str :=
  (match s.written with
   | some w => s.cmd.letter s.rel :: w
   | none => []) ++ renderArgs s.args

def renderSegs : List Seg → Str
  | [] => []
  | s :: r => s.render ++ renderSegs r

/-- leading whitespace, then the segments -/
def renderPath (lead : Str) (segs : List Seg) : Str := lead ++ renderSegs segs

/-! ### legal spellings -/

def isWspRun (s : Str) : Bool := s.all isAsciiWs

/-- `comma-wsp?` of the path grammar (`wsp* (',' wsp*)?`; the scanner's whitespace is Rust's
    `is_ascii_whitespace`, i.e. the SVG `wsp` and the form feed) -/
def isCommaWsp (s : Str) : Bool :=
  match s.dropWhile isAsciiWs with
  | [] => true
  | c :: r => c == ',' && r.all isAsciiWs

/-- every number is well-formed, is followed by a `comma-wsp?`, and what follows it in the string
    (`next` is what comes after the last separator) is not read as a continuation of it - see
    `SvgNumber.continuedBy`: the separator may be empty only before a sign, before a `.` when the number
    has a `.` or an exponent, before a command letter and at the end -/
def argsLegal (next : Str) : List PItem → Bool
  | [] => true
  | (.num n, sep) :: r =>
    n.wf && isCommaWsp sep && !n.continuedBy (sep ++ (renderArgs r ++ next)) && argsLegal next r
  | (.flag _, sep) :: r => isCommaWsp sep && argsLegal next r

/-- the arguments have the shape the command takes: `arity` numbers; for an arc three numbers, two flags,
    two numbers -/
def shapeOk (c : Cmd) (args : List PItem) : Bool :=
  if c == .A then
    match args with
    | [(.num _, _), (.num _, _), (.num _, _), (.flag _, _), (.flag _, _), (.num _, _), (.num _, _)] => true
    | _ => false
  else args.length == c.arity && args.all (·.1.isNum)

/-- the letter of `cur` may be omitted after a segment with command `prev`: the same command repeated
    (not `Z`, and not `M`, whose repetition is a lineto), or a lineto after a moveto -/
def implicitOk (prev : Option (Cmd × Bool)) (cur : Cmd × Bool) : Bool :=
  match prev with
  | none => false
  | some p =>
    p.2 == cur.2 &&
    ((p.1 == cur.1 && cur.1 != .Z && cur.1 != .M) || (p.1 == .M && cur.1 == .L))

def segsLegal (prev : Option (Cmd × Bool)) : List Seg → Bool
  | [] => true
  | s :: r =>
    shapeOk s.cmd s.args &&
    (match s.written with
     | some w => isCommaWsp w
     | none => implicitOk prev (s.cmd, s.rel)) &&
    argsLegal (renderSegs r) s.args &&
    segsLegal (some (s.cmd, s.rel)) r

/-- a legal path: empty, or starting with a moveto -/
def pathLegal (lead : Str) (segs : List Seg) : Bool :=
  isWspRun lead &&
  (match segs with
   | [] => true
   | s :: _ => s.cmd == .M) &&
  segsLegal none segs

/-! ### meaning -/

abbrev Pt := Rat × Rat

/-- the point a segment ends at, from the current point `cur`, the point `start` a closepath returns to
    and the values `vs` of its arguments (the end point is the last pair) -/
def endPoint (c : Cmd) (rel : Bool) (cur start : Pt) (vs : List Rat) : Pt :=
  match c with
  | .Z => start
  | .H => if rel then (cur.1 + vs.getD 0 0, cur.2) else (vs.getD 0 0, cur.2)
  | .V => if rel then (cur.1, cur.2 + vs.getD 0 0) else (cur.1, vs.getD 0 0)
  | _ =>
    let x := vs.getD (c.arity - 2) 0
    let y := vs.getD (c.arity - 1) 0
    if rel then (cur.1 + x, cur.2 + y) else (x, y)

/-- the values of the numbers among the arguments -/
def argValues (args : List PItem) : List Rat :=
  args.filterMap fun a =>
    match a.1 with
    | .num n => some n.denote
    | .flag _ => none

def Seg.values (s : Seg) : List Rat := argValues s.args

/-- the end points in the order they are reached, from the current point `cur` in a subpath that started
    at `start`; a moveto starts a new subpath at its end point -/
def visitedFrom (cur start : Pt) : List Seg → List Pt
  | [] => []
  | s :: r =>
    let p := endPoint s.cmd s.rel cur start s.values
    let start' := if s.cmd == .M then p else start
    p :: visitedFrom p start' r

/-- the points visited by a path: the first segment (a moveto) starts from the origin -/
def visited : List Seg → List Pt
  | [] => []
  | s :: r =>
    let p := endPoint s.cmd s.rel (0, 0) (0, 0) s.values
    p :: visitedFrom p p r

def extend (b : BoundingBox) (p : Pt) : BoundingBox :=
  ⟨Rq.min b.x1 p.1, Rq.min b.y1 p.2, Rq.max b.x2 p.1, Rq.max b.y2 p.2⟩

/-- the smallest box holding the points -/
def hull : List Pt → Option BoundingBox
  | [] => none
  | p :: ps => some (ps.foldl extend ⟨p.1, p.2, p.1, p.2⟩)

end PathSpec
end Svgdx
