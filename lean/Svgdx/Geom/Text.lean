/-
  Svgdx.Geom.Text — model of text.rs: the `text` attribute of a shape becomes a `<text>` element
  (and one `<tspan>` per line), anchored at `text-loc` of the shape's bounding box.
-/
import Svgdx.Geom.Resolve
namespace Svgdx
open Str Num Gen

namespace Text

/-- `text_string`: an unescaped `\n` (backslash, n) is a line break; `\\n` keeps a literal `\n` -/
def textString (s : Str) : Str :=
  go s.length s []
where
  /-- `out` is the result so far, reversed -/
  go : Nat → Str → Str → Str
  | 0, rest, out => out.reverse ++ rest
  | _ + 1, [], out => out.reverse
  | fuel + 1, '\\' :: 'n' :: rest, out =>
    match out with
    | '\\' :: out' => go fuel rest ('n' :: '\\' :: out')
    | _ => go fuel rest ('\n' :: out)
  | fuel + 1, c :: rest, out => go fuel rest (c :: out)

/-- Rust `str::lines`: split on '\n', a trailing '\r' of each line dropped, no final empty line -/
def lines (s : Str) : List Str :=
  let parts := splitBy (· == '\n') s
  let parts := match parts.reverse with
    | [] :: rest => rest.reverse
    | _ => parts
  parts.map fun l => match l.reverse with
    | '\r' :: r => r.reverse
    | _ => l

def zwsp : Str := [Char.ofNat 0x200B]
def nbsp : Char := Char.ofNat 0xA0

structure TextPos where
  x : Rat
  y : Rat
  outside : Bool
  loc : LocSpec
  classes : List Str

/-- how `text-offset` moves the anchor: inward for text inside a shape, outward for lines / points /
    text elements and `d-text-outside` -/
def offsetDelta (loc : LocSpec) (outside : Bool) (offset : Rat) : Rat × Rat :=
  let dy := if loc.is_top then (if outside then -offset else offset)
    else if loc.is_bottom then (if outside then offset else -offset) else 0
  let dx := if loc.is_left then (if outside then -offset else offset)
    else if loc.is_right then (if outside then offset else -offset) else 0
  (dx, dy)

/-- alignment classes matching the anchor -/
def anchorClasses (loc : LocSpec) (outside vertical : Bool) : List Str :=
  (if loc.is_top then
    [match outside, vertical with
      | false, false => cs!"d-text-top" | true, false => cs!"d-text-bottom"
      | false, true => cs!"d-text-top-vertical" | true, true => cs!"d-text-bottom-vertical"]
   else if loc.is_bottom then
    [match outside, vertical with
      | false, false => cs!"d-text-bottom" | true, false => cs!"d-text-top"
      | false, true => cs!"d-text-bottom-vertical" | true, true => cs!"d-text-top-vertical"]
   else []) ++
  (if loc.is_left then
    [match outside, vertical with
      | false, false => cs!"d-text-left" | true, false => cs!"d-text-right"
      | false, true => cs!"d-text-left-vertical" | true, true => cs!"d-text-right-vertical"]
   else if loc.is_right then
    [match outside, vertical with
      | false, false => cs!"d-text-right" | true, false => cs!"d-text-left"
      | false, true => cs!"d-text-right-vertical" | true, true => cs!"d-text-left-vertical"]
   else [])

/-- `get_text_position`; returns the element with the text attributes popped -/
def textPosition (e : Elem) : Except Err (Elem × TextPos) := do
  let (e, dx) := e.popAttr cs!"text-dx"
  let (e, dy) := e.popAttr cs!"text-dy"
  let (e, dxy) := e.popAttr cs!"text-dxy"
  let (tdx0, tdy0) ← (match dxy with
    | some v =>
      let nums := ((attrSplit v).map strp)
      let first := match attrSplit v with
        | [] => ([] : List (Option Rat))
        | [a] => [strp a, strp a]
        | a :: b :: _ => [strp a, strp b]
      let _ := nums
      match first with
      | [some a, some b] => pure (a, b)
      | _ => throw Err.parse
    | none => pure ((0 : Rat), (0 : Rat)))
  let tdx ← (match dx with | some v => Elem.num v | none => pure tdx0)
  let tdy ← (match dy with | some v => Elem.num v | none => pure tdy0)
  let (e, locStr) := e.popAttr cs!"text-loc"
  let loc ← (match parseLocSpec (locStr.getD ['c']) with
    | some l => pure l
    | none => throw Err.invalidData)
  let (e, off) := e.popAttr cs!"text-offset"
  let offset ← Elem.num (off.getD ['1'])
  let vertical := e.hasClass cs!"d-text-vertical"
  let (cls1, hadOut) := classRemove e.classes cs!"d-text-outside"
  let (cls2, hadIn) := if hadOut then (cls1, false) else classRemove cls1 cs!"d-text-inside"
  let e := { e with classes := cls2 }
  let outside := if hadOut then true else if hadIn then false
    else (e.name == cs!"line" || e.name == cs!"point" || e.name == cs!"text")
  let tc : List Str := [cs!"d-text"] ++ anchorClasses loc outside vertical
  let (ox, oy) := offsetDelta loc outside offset
  let tdx := tdx + ox
  let tdy := tdy + oy
  -- a `text` element keeps its own transform, so it is anchored in its own coordinates
  let e0 := if e.name == cs!"text" && e.hasAttr cs!"transform" then (e.popAttr cs!"transform").1 else e
  match ← e0.bbox with
  | none => throw Err.missingBBox
  | some bb =>
    let (px, py) := bb.locspec loc
    pure (e, { x := px + tdx, y := py + tdy, outside := outside, loc := loc, classes := tc })

def ignoreClass (c : Str) : Bool :=
  Gen.Text.text_ignore_classes.contains c ||
  startsWith cs!"d-flow-" c || startsWith cs!"d-grid-" c || startsWith cs!"d-crosshatch-" c ||
  startsWith cs!"d-hatch-" c || startsWith cs!"d-stipple-" c

/-- first-line offset (in line spacings) by justification -/
def firstLineOffset (outside vertical : Bool) (loc : LocSpec) (count : Nat) (spacing : Rat) : Rat :=
  let down : Rat := 0
  let up : Rat := -((count : Rat) - 1) * spacing
  let mid : Rat := -((count : Rat) - 1) / 2 * spacing
  match outside, vertical with
  | false, false => if loc.is_top then down else if loc.is_bottom then up else mid
  | false, true => if loc.is_left then down else if loc.is_right then up else mid
  | true, false => if loc.is_top then up else if loc.is_bottom then down else mid
  | true, true => if loc.is_left then up else if loc.is_right then down else mid

/-- character data of the tspans: one per line (reversed for vertical text); blanks become no-break
    spaces for `d-text-pre`; an empty line is a zero-width space so that it still takes a line -/
def spanContents (pre vertical : Bool) (ls : List Str) : List Str :=
  (if vertical then ls.reverse else ls).map fun frag =>
    let frag := if pre then frag.map (fun c => if c == ' ' then nbsp else c) else frag
    if frag.isEmpty then zwsp else frag

/-- a generated text / tspan element with its character data -/
structure TextEl where
  el : Elem
  content : Str

/-- `process_text_attr`: (the shape without its text attributes, the text element and its tspans) -/
def processTextAttr (e : Elem) : Except Err (Elem × List TextEl) := do
  let (orig, tv) := e.popAttr cs!"text"
  let value := textString (tv.getD [])
  let (orig, pos) ← textPosition orig
  let xs := fstr pos.x
  let ys := fstr pos.y
  let ls := lines value
  let multiline := ls.length > 1
  let vertical := orig.hasClass cs!"d-text-vertical"
  let pre := orig.hasClass cs!"d-text-pre"
  let textEl0 : Elem := if orig.name == cs!"text" then orig else Elem.new cs!"text" []
  let textEl := (textEl0.setAttr ['x'] xs).setAttr ['y'] ys
  let (orig, lsp) := orig.popAttr cs!"text-lsp"
  let spacing ← Elem.num (lsp.getD cs!"1.05")
  let (orig, tstyle) := orig.popAttr cs!"text-style"
  let textEl := match tstyle with
    | some s => textEl.setAttr cs!"style" s
    | none => textEl
  -- classes: d-text-* move to the text element; pattern / shadow / dash classes stay on the shape only
  let (origCls, textCls) := orig.classes.foldl
    (fun (acc : List Str × List Str) c =>
      let oc := if startsWith cs!"d-text-" c then (classRemove acc.1 c).1 else acc.1
      let tc := if ignoreClass c then acc.2 else acc.2 ++ [c]
      (oc, tc))
    (orig.classes, pos.classes)
  let orig := { orig with classes := origCls }
  let textEl := { textEl with classes := textCls.foldl classInsert [] }
  let textEl := if vertical then textEl.setAttr cs!"writing-mode" cs!"tb" else textEl
  let (orig, textEl) := Gen.Text.text_presentation_attrs.foldl
    (fun (acc : Elem × Elem) a =>
      match acc.1.popAttr a with
      | (o, some v) => (o, acc.2.setAttr a v)
      | (_, none) => acc)
    (orig, textEl)
  let main : TextEl := ⟨textEl, value⟩
  if !multiline then pure (orig, [main])
  else
    let tspan0 : Elem := Elem.new cs!"tspan" []
    let tspan0 := match tstyle with
      | some s => tspan0.setAttr cs!"style" s
      | none => tspan0
    let tspan0 := if vertical then tspan0.setAttr ['y'] ys else tspan0.setAttr ['x'] xs
    let spans := (spanContents pre vertical ls).zipIdx.map fun (content, idx) =>
      let off := if idx == 0 then firstLineOffset pos.outside vertical pos.loc ls.length spacing else spacing
      let t := tspan0.setAttr (if vertical then cs!"dx" else cs!"dy") (fstr off ++ cs!"em")
      (⟨t, content⟩ : TextEl)
    pure (orig, main :: spans)

end Text
end Svgdx
