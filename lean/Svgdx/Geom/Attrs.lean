/-
  Svgdx.Geom.Attrs — `AttrMap`, `ClassList` and `SvgElement` as the code has them (types.rs, element.rs):
  an insertion-ordered association list, stably re-sorted by the attribute priority table after
  every insert. The priority table itself is GENERATED from `AttrMap::priority`.
-/
import Svgdx.Base.Num
import Svgdx.Gen.Geometry
import Svgdx.Gen.Tables
namespace Svgdx
open Str

abbrev Attrs := List (Str × Str)

namespace Attrs

def lookupTable {β : Type} (t : List (Str × β)) (k : Str) : Option β :=
  match t with
  | [] => none
  | (k', v) :: rest => if k' == k then some v else lookupTable rest k

/-- `AttrMap::priority`; `usize::MAX` for unlisted keys is modelled as a number above the table. -/
def priority (k : Str) : Nat := (lookupTable Gen.AttrMap.priorityTable k).getD 1000000

/-- stable insertion of one entry into a list sorted by priority (after all entries of equal priority) -/
def insertSorted (e : Str × Str) : Attrs → Attrs
  | [] => [e]
  | x :: xs => if priority e.1 < priority x.1 then e :: x :: xs else x :: insertSorted e xs

/-- stable sort by priority: `AttrMap::reorder` -/
def reorder (a : Attrs) : Attrs := a.foldl (fun acc e => insertSorted e acc) []

def get (a : Attrs) (k : Str) : Option Str := lookupTable a k

def contains (a : Attrs) (k : Str) : Bool := (get a k).isSome

def updateInPlace (k v : Str) : Attrs → Attrs
  | [] => []
  | (k', v') :: rest => if k' == k then (k', v) :: rest else (k', v') :: updateInPlace k v rest

/-- `AttrMap::insert`: update in place or append, then reorder -/
def insert (a : Attrs) (k v : Str) : Attrs :=
  reorder (if contains a k then updateInPlace k v a else a ++ [(k, v)])

/-- `AttrMap::insert_first` -/
def insertFirst (a : Attrs) (k v : Str) : Attrs := if contains a k then a else insert a k v

/-- `AttrMap::pop` -/
def pop (a : Attrs) (k : Str) : Attrs × Option Str :=
  match a with
  | [] => ([], none)
  | (k', v) :: rest =>
    if k' == k then (rest, some v)
    else
      let (r, o) := pop rest k
      ((k', v) :: r, o)

def remove (a : Attrs) (k : Str) : Attrs := (pop a k).1

def removeAll (a : Attrs) (ks : List Str) : Attrs := ks.foldl remove a

/-- `AttrMap::from(Vec)`: reorder only -/
def ofList (l : List (Str × Str)) : Attrs := reorder l

end Attrs

/-- `ClassList::insert` -/
def classInsert (cs : List Str) (c : Str) : List Str := if cs.contains c then cs else cs ++ [c]

def classRemove (cs : List Str) (c : Str) : List Str × Bool :=
  if cs.contains c then (cs.erase c, true) else (cs, false)

structure Elem where
  name : Str
  attrs : Attrs
  classes : List Str := []
  contentBBox : Option Gen.BoundingBox := none
  /-- `event_range` start == end (an empty element) -/
  isEmpty : Bool := true
deriving Repr, Inhabited, DecidableEq

namespace Elem

/-- `SvgElement::new`: `class` is split on single spaces into the class list, other attributes inserted -/
def new (name : Str) (attrs : List (Str × Str)) : Elem :=
  let (am, cl) := attrs.foldl
    (fun (acc : Attrs × List Str) (kv : Str × Str) =>
      if kv.1 == cs!"class" then
        (acc.1, (splitBy (· == ' ') kv.2).foldl classInsert acc.2)
      else (Attrs.insert acc.1 kv.1 kv.2, acc.2))
    ([], [])
  { name := name, attrs := am, classes := cl }

def getAttr (e : Elem) (k : Str) : Option Str := e.attrs.get k
def hasAttr (e : Elem) (k : Str) : Bool := e.attrs.contains k
def setAttr (e : Elem) (k v : Str) : Elem := { e with attrs := e.attrs.insert k v }
def setDefaultAttr (e : Elem) (k v : Str) : Elem := if e.hasAttr k then e else e.setAttr k v
def popAttr (e : Elem) (k : Str) : Elem × Option Str :=
  let (a, o) := e.attrs.pop k
  ({ e with attrs := a }, o)
def removeAttrs (e : Elem) (ks : List Str) : Elem := { e with attrs := e.attrs.removeAll ks }
def addClass (e : Elem) (c : Str) : Elem := { e with classes := classInsert e.classes c }
def hasClass (e : Elem) (c : Str) : Bool := e.classes.contains c

/-- `without_attr`: filter, then `AttrMap::from` (reorder) -/
def withoutAttr (e : Elem) (k : Str) : Elem :=
  { e with attrs := Attrs.ofList (e.attrs.filter (fun kv => kv.1 != k)) }

/-- `self.with_attrs_from(other)`: self's attrs updated by other's; everything else from other; name from self -/
def withAttrsFrom (self other : Elem) : Elem :=
  { other with name := self.name,
               attrs := other.attrs.foldl (fun a kv => Attrs.insert a kv.1 kv.2) self.attrs }

end Elem
end Svgdx
