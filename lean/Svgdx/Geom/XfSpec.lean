/-
  Svgdx.Geom.XfSpec — the SVG 1.1 `transform` attribute as an abstract syntax tree, independent of the
  parser `parseXfList` of `Svgdx.Geom.BBox` (transform_attr.rs):

      transform-list ::= wsp* (transform (comma-wsp+ transform)*)? wsp*
      transform      ::= name wsp* "(" wsp* number (comma-wsp number)* wsp* ")"

  with the six names `translate scale rotate skewX skewY matrix` and their argument counts.

  White space between the name and the "(" (`Item.gap`): the parser takes the text before the first "(" as
  the name and `trim`s it, which removes every character of Rust's `char::is_whitespace` (`Str.isWs`: the
  SVG `wsp` characters space, tab, LF, CR and also FF, NEL, NBSP, the Unicode spaces); the list splitter
  (split after each ")", trim the piece, strip leading `, space tab LF CR`) never looks between the name
  and the "(". So the gap may be any run of `isWs` characters - a superset of SVG's `wsp*` - and nothing
  else (any other character there makes the name unknown, as it should).

  Proofs are in Svgdx/Proofs/XfSpec.lean.
-/
import Svgdx.Base.NumSpec
import Svgdx.Geom.BBox
namespace Svgdx
open Str NumSpec

namespace XfSpec

inductive Kind where
  | translate | scale | rotate | skewX | skewY | matrix
deriving Repr, DecidableEq, Inhabited

def Kind.name : Kind → Str
  | .translate => cs!"translate"
  | .scale => cs!"scale"
  | .rotate => cs!"rotate"
  | .skewX => cs!"skewX"
  | .skewY => cs!"skewY"
  | .matrix => cs!"matrix"

/-- the numbers of arguments a transform takes -/
def Kind.argsOk : Kind → Nat → Bool
  | .translate, n => n == 1 || n == 2
  | .scale, n => n == 1 || n == 2
  | .rotate, n => n == 1 || n == 3
  | .skewX, n => n == 1
  | .skewY, n => n == 1
  | .matrix, n => n == 6

structure Item where
  kind : Kind
  /-- whitespace between the name and the "(" -/
  gap : Str := []
  /-- whitespace after the "(" -/
  lead : Str := []
  /-- the arguments, each followed by its separator (the last one: the whitespace before the ")") -/
  args : List NumItem
  /-- what is written after the ")" : the separator before the next transform, or trailing whitespace -/
  after : Str := []
deriving Repr, Inhabited

def Item.render (t : Item) : Str :=
  t.kind.name ++ (t.gap ++ ('(' :: (t.lead ++ (renderItems t.args ++ (')' :: t.after)))))

def renderItemsXf : List Item → Str
  | [] => []
  | t :: r => t.render ++ renderItemsXf r

/-- leading whitespace, then the transforms -/
def renderList (lead : Str) (ts : List Item) : Str := lead ++ renderItemsXf ts

/-- SVG `wsp` -/
def isXfWs (c : Char) : Bool := c == ' ' || c == '\t' || c == '\n' || c == '\r'

/-- the gap before the "(" is white space; the arguments are a legal number list with the right count; what follows the ")" is a run of
    whitespace and commas (`comma-wsp+` is the special case with at most one comma per gap), whitespace
    only after the last transform -/
def listLegal : List Item → Bool
  | [] => true
  | t :: r =>
    t.gap.all isWs && isSepRun t.lead && itemsLegal t.args && t.kind.argsOk t.args.length &&
    t.after.all isXfSep && (!r.isEmpty || t.after.all isXfWs) && listLegal r

/-- what the transform does to a box, as far as svgdx uses it -/
def Item.denote (t : Item) : Xf :=
  match t.kind, t.args.map (·.1.denote) with
  | .translate, [a] => .translate a 0
  | .translate, [a, b] => .translate a b
  | .scale, [a] => .scale a a
  | .scale, [a, b] => .scale a b
  | _, _ => .other

end XfSpec
end Svgdx
