/-
  Svgdx.Geom.Resolve — the one-element positioning pipeline of element.rs / position.rs on
  string attributes: `resolve_position` (containment, compound attributes, relative attributes,
  relative position, `Position` solving through the GENERATED `Gen.Position.to_bbox`,
  `set_position_attrs`) and the dx/dy part of `transmute`.

  Attribute values are assumed free of `$var` and `{{expr}}` (those are Svgdx.Expr's business);
  `use`/`reuse` targets, `clip-path`, and group content boxes are followed as the code does.
-/
import Svgdx.Geom.BBox
namespace Svgdx
open Str Num Gen

structure Ctx where
  /-- `elem_map`: id ↦ element (latest registration first) -/
  elems : List (Str × Elem) := []
  prev : Option Elem := none
deriving Repr, Inhabited

namespace Ctx

def get (c : Ctx) : ElRef → Option Elem
  | .id s => Attrs.lookupTable c.elems s
  | .prev => c.prev

/-- `get_target_element`: follow `use`/`reuse` hrefs; `fuel` bounds the chain (a cycle is reported by
    the code through `seen`; with fuel = number of elements + 2 (the element itself, `^`, then distinct registered elements) a cycle also exhausts the fuel). -/
def target (c : Ctx) : Nat → Elem → Except Err Elem
  | 0, _ => .error .circular
  | fuel + 1, e =>
    if e.name == cs!"use" || e.name == cs!"reuse" then
      match (e.getAttr cs!"href").orElse (fun _ => e.getAttr cs!"xlink:href") with
      | none => .error .missingAttr
      | some h =>
        match parseElref h with
        | .error er => .error er
        | .ok r =>
          match c.get r with
          | none => .error .reference
          | some t => target c fuel t
    else .ok e

def extractUrlref (s : Str) : Option ElRef :=
  match stripPrefix cs!"url(#" (trim s) with
  | some r => (stripSuffix [')'] r).map ElRef.id
  | none => none

/-- `get_element_bbox`; `seen` = the clip paths being followed (a clipPath may itself be clipped; a
    cycle is an error). With the cycle check the recursion depth is bounded by the number of ids. -/
def bboxOf (c : Ctx) : Nat → List ElRef → Elem → Except Err (Option BoundingBox)
  | 0, _, _ => .error .circular
  | fuel + 1, seen, e => do
    let t ← c.target (c.elems.length + 2) e
    let b ← t.bbox
    let b ← (if e.name == cs!"use" || e.name == cs!"reuse" then
        match e.getAttr ['x'], e.getAttr ['y'], b with
        | none, none, _ => pure b
        | tx, ty, some bb => do
          let dx ← (match tx with | some v => Elem.num v | none => pure 0)
          let dy ← (match ty with | some v => Elem.num v | none => pure 0)
          pure (some (bb.translated dx dy))
        | _, _, none => pure none
      else pure b)
    -- a `transform` on the `use` itself applies to the instance, outside the x / y shift
    let b ← (if e.name == cs!"use" then
        match e.getAttr cs!"transform", b with
        | some t, some bb =>
          match parseXfList t with
          | some xs => pure (some (applyXfList xs bb))
          | none => .error .parse
        | _, _ => pure b
      else pure b)
    match e.getAttr cs!"clip-path", b with
    | some cp, some bb =>
      match extractUrlref cp with
      | none => .error .invalidData
      | some r =>
        if seen.contains r then .error .circular
        else
          match c.get r with
          | none => .error .reference
          | some ce =>
            if ce.name == cs!"clipPath" then do
              let cb ← bboxOf c fuel (r :: seen) ce
              match cb with
              | some cb => pure (bb.intersect cb)
              | none => pure (some bb)
            else pure (some bb)
    | _, _ => pure b

def bb (c : Ctx) (e : Elem) : Except Err (Option BoundingBox) := bboxOf c (c.elems.length + 2) [] e

end Ctx

namespace Elem

/-- `SvgElement::size` (through `get_element_size`: of the target element) -/
def sizeRaw (c : Ctx) : Nat → Elem → Except Err (Option (Rat × Rat))
  | 0, _ => .error .circular
  | fuel + 1, e => do
    let w0 ← (match e.attrs.get cs!"width" with | some w => (num w).map some | none => pure none)
    let h0 ← (match e.attrs.get cs!"height" with | some h => (num h).map some | none => pure none)
    let optNum := fun (k : Str) => (match e.attrs.get k with
      | some v => (num v).map some | none => (pure none : Except Err (Option Rat)))
    let (w, h) ←
      (if e.name == cs!"use" || e.name == cs!"reuse" then do
        let t ← c.target (c.elems.length + 2) e
        match ← sizeRaw c fuel t with
        | some (tw, th) => pure (some tw, some th)
        | none => pure (w0, h0)
      else if e.name == ['g'] || e.name == cs!"symbol" then
        (match e.contentBBox with
         | some b => pure (some b.width, some b.height)
         | none => pure (w0, h0))
      else if e.name == cs!"point" || e.name == cs!"text" then pure (some 0, some 0)
      else if e.name == cs!"circle" then do
        match ← optNum ['r'] with
        | some r => pure (some (r * 2), some (r * 2))
        | none => pure (w0, h0)
      else if e.name == cs!"ellipse" then do
        let rx ← optNum cs!"rx"
        let ry ← optNum cs!"ry"
        pure ((rx.map (· * 2)).orElse (fun _ => w0), (ry.map (· * 2)).orElse (fun _ => h0))
      else if e.name == cs!"line" then do
        let x1 ← optNum cs!"x1"; let x2 ← optNum cs!"x2"
        let w := (match x1, x2 with | some a, some b => some (Rq.abs (b - a)) | _, _ => w0)
        let y1 ← optNum cs!"y1"; let y2 ← optNum cs!"y2"
        let h := (match y1, y2 with | some a, some b => some (Rq.abs (b - a)) | _, _ => h0)
        pure (w, h)
      else pure (w0, h0))
    match w, h with
    | some w, some h => pure (some (w, h))
    | _, _ => pure none

def size (c : Ctx) (e : Elem) : Except Err (Option (Rat × Rat)) := sizeRaw c (c.elems.length + 2) e

/-- FRAC_1_SQRT_2 and SQRT_2 as the exact values of the `f32` constants -/
def frac1Sqrt2 : Rat := (11863283 : Rat) / 16777216
def sqrt2 : Rat := (11863283 : Rat) / 8388608

/-- `inscribed_bbox(target_shape)` -/
def inscribedBBox (e : Elem) (targetShape : Str) : Except Err (Option BoundingBox) :=
  if targetShape == cs!"rect" && e.name == cs!"circle" then
    match e.attrs.get ['r'] with
    | some r => do
      let cx ← num ((e.attrs.get cs!"cx").getD zstr)
      let cy ← num ((e.attrs.get cs!"cy").getD zstr)
      let r ← num r
      let r := r * frac1Sqrt2
      pure (some ⟨cx - r, cy - r, cx + r, cy + r⟩)
    | none => pure none
  else if targetShape == cs!"rect" && e.name == cs!"ellipse" then
    match e.attrs.get cs!"rx", e.attrs.get cs!"ry" with
    | some rx, some ry => do
      let cx ← num ((e.attrs.get cs!"cx").getD zstr)
      let cy ← num ((e.attrs.get cs!"cy").getD zstr)
      let rx ← num rx
      let ry ← num ry
      let rx := rx * frac1Sqrt2
      let ry := ry * frac1Sqrt2
      pure (some ⟨cx - rx, cy - ry, cx + rx, cy + ry⟩)
    | _, _ => pure none
  else e.bbox

/-- `position_from_bbox` -/
def positionFromBBox (e : Elem) (b : BoundingBox) (inscribe : Bool) : Elem :=
  let width := b.width
  let height := b.height
  let (cx, cy) := b.center
  let (x1, y1) := b.locspec LocSpec.TopLeft
  let half : Rat := (1 : Rat) / 2
  if e.name == cs!"rect" || e.name == cs!"box" then
    (((e.setAttr ['x'] (fstr x1)).setAttr ['y'] (fstr y1)).setAttr cs!"width" (fstr width)).setAttr
      cs!"height" (fstr height)
  else if e.name == cs!"circle" then
    let r := if inscribe then half * Rq.min width height else half * Rq.max width height * sqrt2
    ((e.setAttr cs!"cx" (fstr cx)).setAttr cs!"cy" (fstr cy)).setAttr ['r'] (fstr r)
  else if e.name == cs!"ellipse" then
    let rx := if inscribe then half * width else half * width * sqrt2
    let ry := if inscribe then half * height else half * height * sqrt2
    (((e.setAttr cs!"cx" (fstr cx)).setAttr cs!"cy" (fstr cy)).setAttr cs!"rx" (fstr rx)).setAttr
      cs!"ry" (fstr ry)
  else e

def unionAll : List BoundingBox → Option BoundingBox
  | [] => none
  | b :: bs => some (bs.foldl BoundingBox.combine b)

def intersectAll : List BoundingBox → Option BoundingBox
  | [] => none
  | b :: bs => bs.foldl (fun acc o => acc.bind (·.intersect o)) (some b)

/-- `handle_containment` -/
def handleContainment (c : Ctx) (e : Elem) : Except Err Elem :=
  match e.getAttr cs!"surround", e.getAttr cs!"inside" with
  | some _, some _ => .error .invalidData
  | none, none => .ok e
  | surround, inside => do
    let isSurround := surround.isSome
    let refList := (surround.orElse fun _ => inside).getD []
    let boxes ← (attrSplit refList).mapM (fun (r : Str) => do
      let r ← parseElref r
      match c.get r with
      | none => throw Err.reference
      | some el =>
        let b := if isSurround then c.bb el else el.inscribedBBox e.name
        match b with
        | .ok (some b) => pure b
        | _ => throw Err.missingBBox)
    let bbox := if isSurround then unionAll boxes else intersectAll boxes
    let bbox ← (match e.getAttr cs!"margin" with
      | some m =>
        match parseTrbl m with
        | none => throw Err.parse
        | some t => pure (bbox.map fun b =>
            if isSurround then b.expand_trbl_length t else b.shrink_trbl_length t)
      | none => pure bbox)
    let e := match bbox with
      | some b => e.positionFromBBox b (!isSurround)
      | none => e
    let e := e.addClass (if isSurround then cs!"d-surround" else cs!"d-inside")
    pure (e.removeAttrs [cs!"surround", cs!"inside", cs!"margin"])

/-- first two values of a cycling `attr_split` (empty ⇒ "", one ⇒ repeated) -/
def cyclePair (s : Str) : Str × Str :=
  match attrSplit s with
  | [] => ([], [])
  | [a] => (a, a)
  | a :: b :: _ => (a, b)

/-- `split_compound_attr` -/
def splitCompoundAttr (value : Str) : Str × Str :=
  match value with
  | c :: _ =>
    if c == '#' || c == '^' then
      match breakOn isWs value with
      | (pfx, some (_, remain)) =>
        let (x, y) := cyclePair remain
        (pfx ++ [' '] ++ x, pfx ++ [' '] ++ y)
      | (_, none) => (value, value)
    else cyclePair value
  | [] => ([], [])

def expandPair (e : Elem) (k k1 k2 : Str) : Elem :=
  match e.popAttr k with
  | (e', some v) =>
    let (a, b) := splitCompoundAttr v
    { e' with attrs := (e'.attrs.insertFirst k1 a).insertFirst k2 b }
  | (_, none) => e

/-- `expand_compound_size` -/
def expandCompoundSize (e : Elem) : Elem :=
  let e := e.expandPair cs!"wh" cs!"width" cs!"height"
  let e := e.expandPair cs!"rxy" cs!"rx" cs!"ry"
  e.expandPair cs!"dwh" cs!"dw" cs!"dh"

def xyLoc (loc : Option Str) : Str × Str :=
  match loc with
  | some l =>
    match Attrs.lookupTable (Gen.Element.xyLocTable.map fun (k, a, b) => (k, (a, b))) l with
    | some p => p
    | none => (['x'], ['y'])
  | none => (['x'], ['y'])

/-- `expand_compound_pos` -/
def expandCompoundPos (e : Elem) : Elem :=
  let e := (match e.popAttr cs!"xy" with
    | (e', some v) =>
      let (x, y) := splitCompoundAttr v
      let (e'', loc) := e'.popAttr cs!"xy-loc"
      let (xa, ya) := xyLoc loc
      { e'' with attrs := (e''.attrs.insertFirst xa x).insertFirst ya y }
    | (_, none) => e)
  let e := e.expandPair cs!"cxy" cs!"cx" cs!"cy"
  let e := e.expandPair cs!"xy1" cs!"x1" cs!"y1"
  let e := e.expandPair cs!"xy2" cs!"x2" cs!"y2"
  let e := e.expandPair cs!"dxy" cs!"dx" cs!"dy"
  -- `xy-loc` only says which point `xy` names: it is consumed whether or not an `xy` was there
  (e.popAttr cs!"xy-loc").1

def isSizeAttr (e : Elem) (k : Str) : Bool :=
  if e.name == cs!"text" || e.name == cs!"point" then false
  else k == cs!"width" || k == cs!"height" || (e.name == cs!"circle" && k == ['r'])
    || (e.name == cs!"ellipse" && (k == cs!"rx" || k == cs!"ry"))

def isPosAttr (k : Str) : Bool :=
  k == ['x'] || k == ['y'] || k == cs!"x1" || k == cs!"y1" || k == cs!"x2" || k == cs!"y2"
    || k == cs!"cx" || k == cs!"cy"

/-- `split_relspec` -/
def splitRelspec (c : Ctx) (input : Str) : Except Err (Option Elem × Str) :=
  match extractElref input with
  | some (r, remain) =>
    match c.get r with
    | some el => .ok (some el, remain)
    | none => .error .reference
  | none => .ok (none, input)

def splitOnceSpace (s : Str) : Str × Str :=
  match splitOnce ' ' s with
  | some p => p
  | none => (s, [])

/-- `eval_size_attr` -/
def evalSizeAttr (c : Ctx) (name value : Str) : Except Err Str :=
  match parseScalarSpec name with
  | none => .ok value
  | some attrSs => do
    match ← splitRelspec c value with
    | (some el, remain) =>
      match c.bb el with
      | .ok (some bbox) =>
        let (ssStr, dxy) := splitOnceSpace remain
        let v ← (match stripPrefix ['~'] ssStr with
          | some ss =>
            match parseScalarSpec ss with
            | some s => pure (bbox.scalarspec s)
            | none => throw Err.invalidData
          | none => pure (bbox.scalarspec attrSs))
        let v := match parseLength dxy with
          | some len => len.adjust v
          | none => v
        pure (fstr v)
      | .ok none => throw Err.missingBBox
      | .error er => throw er
    | (none, _) => pure value

/-- `extract_dx_dy` -/
def extractDxDy (s : Str) : Except Err (Rat × Rat) :=
  let (a, b) := match attrSplit s with
    | [] => (zstr, zstr)
    | [a] => (a, a)
    | a :: b :: _ => (a, b)
  do
    let dx ← num a
    let dy ← num b
    pure (dx, dy)

/-- `pos_attr_helper` -/
def posAttrHelper (e : Elem) (remain : Str) (bbox : BoundingBox) (attrSs : ScalarSpec) : Except Err Str :=
  let (locStr, dxy) := splitOnceSpace remain
  match stripPrefix ['~'] locStr with
  | some ss =>
    match parseScalarSpec ss with
    | none => .error .invalidData
    | some s =>
      let v := bbox.scalarspec s
      let v := match parseLength dxy with
        | some len => len.adjust v
        | none => v
      .ok (fstr v)
  | none => do
    let loc0 ← (if e.name == cs!"text" then
        match parseLocSpec ((e.getAttr cs!"text-loc").getD ['c']) with
        | some l => pure l
        | none => throw Err.invalidData
      else pure (LocSpec.from_scalarspec attrSs))
    let loc ← (match stripPrefix ['@'] locStr with
      | some ls =>
        match parseLocSpec ls with
        | some l => pure l
        | none => throw Err.invalidData
      | none => if locStr.isEmpty then pure loc0 else throw Err.parse)
    let (x, y) := bbox.locspec loc
    let (dx, dy) ← extractDxDy dxy
    let v := match attrSs with
      | .Minx | .Maxx | .Cx => x + dx
      | .Miny | .Maxy | .Cy => y + dy
      | _ => bbox.scalarspec attrSs
    pure (fstr v)

/-- `eval_pos_attr` -/
def evalPosAttr (c : Ctx) (e : Elem) (name value : Str) : Except Err Str :=
  match parseScalarSpec name with
  | none => .ok value
  | some attrSs => do
    match ← splitRelspec c value with
    | (some el, remain) =>
      match c.bb el with
      | .ok (some bbox) => e.posAttrHelper remain bbox attrSs
      | .ok none => throw Err.missingBBox
      | .error er => throw er
    | (none, _) => pure value

/-- `eval_rel_attributes`: over a snapshot of the attributes, updating in place -/
def evalRelAttributes (c : Ctx) (e : Elem) : Except Err Elem :=
  e.attrs.foldlM
    (fun (acc : Elem) (kv : Str × Str) => do
      if acc.isSizeAttr kv.1 then
        let v ← evalSizeAttr c kv.1 kv.2
        pure (if (strp v).isSome then acc.setAttr kv.1 v else acc)
      else if isPosAttr kv.1 then
        let v ← evalPosAttr c acc kv.1 kv.2
        pure (if (strp v).isSome then acc.setAttr kv.1 v else acc)
      else pure acc)
    e

/-- `resolve_size_delta` -/
def resolveSizeDelta (e : Elem) : Elem :=
  let optN := fun (k : Str) => (e.getAttr k).bind strp
  let (w, h) : Option Rat × Option Rat :=
    if e.name == cs!"circle" then
      let d := (e.getAttr ['r']).map fun r => 2 * (strp r).getD 0
      (d, d)
    else if e.name == cs!"ellipse" then
      ((optN cs!"rx").map (· * 2), (optN cs!"ry").map (· * 2))
    else (optN cs!"width", optN cs!"height")
  let e := (match e.popAttr cs!"dw" with
    | (e', some dw) =>
      match parseLength dw, w with
      | some l, some x => e'.setAttr cs!"width" (fstr (l.adjust x))
      | _, _ => e'
    | (_, none) => e)
  match e.popAttr cs!"dh" with
  | (e', some dh) =>
    match parseLength dh, h with
    | some l, some x => e'.setAttr cs!"height" (fstr (l.adjust x))
    | _, _ => e'
  | (_, none) => e

/-- `eval_text_anchor`: derive a default `text-loc` from a relative `xy` -/
def evalTextAnchor (c : Ctx) (e : Elem) : Except Err Elem :=
  match e.attrs.get cs!"xy" with
  | none => .ok e
  | some input => do
    let (_, relLoc) ← splitRelspec c input
    let relLoc := ((splitWhitespace relLoc).head?).getD []
    match stripPrefix ['|'] relLoc with
    | some rel =>
      match parseDirSpec rel with
      | none => throw Err.invalidData
      | some .Above => pure (e.setDefaultAttr cs!"text-loc" ['t'])
      | some .Below => pure (e.setDefaultAttr cs!"text-loc" ['b'])
      | some .InFront => pure (e.setDefaultAttr cs!"text-loc" ['r'])
      | some .Behind => pure (e.setDefaultAttr cs!"text-loc" ['l'])
    | none =>
      match stripPrefix ['@'] relLoc with
      | some loc =>
        match parseLocSpec loc with
        | none => throw Err.invalidData
        | some l =>
          let t : Str := match l with
            | .TopLeft => cs!"tl" | .Top => ['t'] | .TopRight => cs!"tr" | .Right => ['r']
            | .BottomRight => cs!"br" | .Bottom => ['b'] | .BottomLeft => cs!"bl" | .Left => ['l']
            | .Center => ['c'] | .TopEdge _ => ['t'] | .BottomEdge _ => ['b']
            | .LeftEdge _ => ['l'] | .RightEdge _ => ['r']
          pure (e.setDefaultAttr cs!"text-loc" t)
      | none => pure e

/-- the numeric core of `eval_rel_position`: top-left corner of an element of size `tw × th`
    placed beside `ref` in direction `rel` with `gap` -/
def dirPlace (rel : DirSpec) (ref : BoundingBox) (tw th gap : Rat) : Rat × Rat :=
  let (x, y) := ref.locspec rel.to_locspec
  let (dx, dy) : Rat × Rat := match rel with
    | .Above => (-tw / 2, -(th + gap))
    | .Below => (-tw / 2, gap)
    | .InFront => (gap, -th / 2)
    | .Behind => (-(tw + gap), -th / 2)
  (x + dx, y + dy)

/-- `place_at` -/
def placeAt (c : Ctx) (e : Elem) (x y : Rat) : Except Err Elem :=
  if e.name == cs!"use" then do
    let t ← c.target (c.elems.length + 2) e
    match ← t.bbox with
    | some b =>
      let (dx, dy) := b.locspec LocSpec.TopLeft
      pure ((e.setAttr ['x'] (fstr (x - dx))).setAttr ['y'] (fstr (y - dy)))
    | none => pure e
  else pure ((e.setAttr ['x'] (fstr x)).setAttr ['y'] (fstr y))

/-- `eval_rel_position`: `xy="#ref|h gap"` -/
def evalRelPosition (c : Ctx) (e : Elem) : Except Err Elem :=
  match e.attrs.get cs!"xy" with
  | none => .ok e
  | some input => do
    match ← splitRelspec c input with
    | (none, _) => pure e
    | (some refEl, remain) =>
      let bbox ← c.bb refEl
      match bbox, stripPrefix ['|'] remain with
      | some bbox, some skip =>
        let (reldir, rest) := match breakOn isWs skip with
          | (a, some (ws, b)) => (a, trimStart (ws :: b))
          | (a, none) => (a, [])
        match parseDirSpec reldir with
        | none => throw Err.invalidData
        | some rel =>
          let (tw, th) := (← e.size c).getD (0, 0)
          let gap ← (if rest.isEmpty then pure 0 else num (((attrSplit rest).head?).getD zstr))
          let (px, py) := dirPlace rel bbox tw th gap
          let e := (e.popAttr cs!"xy").1
          e.placeAt c px py
      | _, _ => pure e

/-- `Position::from(&SvgElement)` -/
def toPosition (e : Elem) : Position :=
  let optN := fun (k : Str) => (e.getAttr k).bind strp
  let first := fun (a b : Str) => (match e.getAttr a with
    | some v => strp v
    | none => (e.getAttr b).bind strp)
  let isUse := e.name == cs!"reuse" || e.name == cs!"use"
  let w0 := if isUse then none else optN cs!"width"
  let h0 := if isUse then none else optN cs!"height"
  let (w, h) :=
    if e.name == cs!"circle" || e.name == cs!"ellipse" then
      let rx := first cs!"rx" ['r']
      let ry := first cs!"ry" ['r']
      ((rx.map (· * 2)).orElse (fun _ => w0), (ry.map (· * 2)).orElse (fun _ => h0))
    else (w0, h0)
  { xmin := first cs!"x1" ['x'], ymin := first cs!"y1" ['y'],
    xmax := optN cs!"x2", ymax := optN cs!"y2",
    cx := optN cs!"cx", cy := optN cs!"cy",
    width := w, height := h,
    dx := optN cs!"dx", dy := optN cs!"dy",
    shape := e.name }

def removeList (name : Str) : List Str := (Attrs.lookupTable Gen.Position.removeAttrs name).getD []

/-- Rust `Display` of an f32 as used by `format!("translate({x}, {y})")`; outside the exact grid `?` -/
def disp (x : Rat) : Str := (displayExact x).getD ['?']

def translateStr (x y : Rat) : Str := cs!"translate(" ++ disp x ++ cs!", " ++ disp y ++ [')']

/-- `position_via_transform` -/
def positionViaTransform (p : Position) (e : Elem) : Elem :=
  let x := p.x + p.dx.getD 0
  let y := p.y + p.dy.getD 0
  if x != 0 || y != 0 then
    let t := translateStr x y
    let t := match e.getAttr cs!"transform" with
      | some ex => ex ++ [' '] ++ t
      | none => t
    (e.setAttr cs!"transform" t).removeAttrs
      [cs!"dx", cs!"dy", cs!"dw", cs!"dh", ['x'], ['y'], cs!"x1", cs!"y1", cs!"x2", cs!"y2",
       cs!"cx", cs!"cy", cs!"rx", cs!"ry", ['r'], cs!"width", cs!"height"]
  else e

/-- one coordinate of a line in `set_position_attrs` -/
def lineCoord (e : Elem) (k : Str) (v : Rat) (d : Option Rat) : Elem :=
  match e.getAttr k with
  | none => e.setAttr k (fstr (v + d.getD 0))
  | some cur =>
    match d with
    | some dd =>
      match strp cur with
      | some c => e.setAttr k (fstr (c + dd))
      | none => e
    | none => e

/-- `Position::set_position_attrs` -/
def setPositionAttrs (p : Position) (e : Elem) : Elem :=
  match p.to_bbox with
  | some bbox =>
    let n := e.name
    if n == [] || n == cs!"rect" || n == cs!"box" || n == cs!"point" || n == cs!"use" || n == cs!"image"
        || n == cs!"svg"
        || n == cs!"foreignObject" then
      let (x1, y1) := bbox.locspec LocSpec.TopLeft
      let e := if p.has_x_position then e.setAttr ['x'] (fstr (x1 + p.dx.getD 0)) else e
      let e := if p.has_y_position then e.setAttr ['y'] (fstr (y1 + p.dy.getD 0)) else e
      let e := if n != cs!"use" then
          (e.setAttr cs!"width" (fstr bbox.width)).setAttr cs!"height" (fstr bbox.height)
        else e
      e.removeAttrs (removeList n)
    else if n == ['g'] then
      let (x1, y1) := bbox.locspec LocSpec.TopLeft
      if x1 != 0 || y1 != 0 then
        let t := translateStr x1 y1
        let t := match e.getAttr cs!"transform" with
          | some r => r ++ [' '] ++ t
          | none => t
        e.setAttr cs!"transform" t
      else e
    else if n == cs!"circle" then
      let (cx, cy) := bbox.center
      let e := if p.has_x_position then e.setAttr cs!"cx" (fstr (cx + p.dx.getD 0)) else e
      let e := if p.has_y_position then e.setAttr cs!"cy" (fstr (cy + p.dy.getD 0)) else e
      (e.setAttr ['r'] (fstr (bbox.width / 2))).removeAttrs (removeList n)
    else if n == cs!"ellipse" then
      let (cx, cy) := bbox.center
      let e := if p.has_x_position then e.setAttr cs!"cx" (fstr (cx + p.dx.getD 0)) else e
      let e := if p.has_y_position then e.setAttr cs!"cy" (fstr (cy + p.dy.getD 0)) else e
      ((e.setAttr cs!"rx" (fstr (bbox.width / 2))).setAttr cs!"ry" (fstr (bbox.height / 2))).removeAttrs
        (removeList n)
    else if n == cs!"line" then
      let (x1, y1) := bbox.locspec LocSpec.TopLeft
      let (x2, y2) := bbox.locspec LocSpec.BottomRight
      let e := e.lineCoord cs!"x1" x1 p.dx
      let e := e.lineCoord cs!"y1" y1 p.dy
      let e := e.lineCoord cs!"x2" x2 p.dx
      let e := e.lineCoord cs!"y2" y2 p.dy
      e.removeAttrs (removeList n)
    else e
  | none =>
    if e.name == ['g'] || e.name == cs!"path" || e.name == cs!"polyline" || e.name == cs!"polygon" then
      positionViaTransform p e
    else e

def wordBreak (c : Char) : Bool :=
  !(isAsciiAlnum c || c == '_' || c == '-' || c == '~' || c == '|' || c == '@' || c == ':' || c == '%')

/-- `expand_single_relspec` -/
def expandSingleRelspec (c : Ctx) (value : Str) : Str :=
  match splitRelspec c value with
  | .ok (some el, rest) =>
    let pt := fun (loc : LocSpec) => (match c.bb el with
      | .ok (some b) => let (x, y) := b.locspec loc; some (fstr x ++ [' '] ++ fstr y)
      | _ => none)
    if rest.isEmpty && el.name == cs!"point" then (pt LocSpec.Center).getD value
    else
      match (stripPrefix ['@'] rest).bind parseLocSpec with
      | some loc => (pt loc).getD value
      | none =>
        match (stripPrefix ['~'] rest).bind parseScalarSpec with
        | some s =>
          (match c.bb el with
           | .ok (some b) => fstr (b.scalarspec s)
           | _ => value)
        | none => value
  | _ => value

/-- `expand_relspec` (points / d attributes) -/
def expandRelspec (c : Ctx) (value : Str) : Str :=
  go value.length value
where
  go : Nat → Str → Str
  | 0, v => v
  | fuel + 1, v =>
    match breakOn (fun ch => ch == '#' || ch == '^') v with
    | (pre, none) => pre
    | (pre, some (ch, after)) =>
      let word := after.takeWhile (fun x => !wordBreak x)
      let rest := after.dropWhile (fun x => !wordBreak x)
      pre ++ expandSingleRelspec c (ch :: word) ++ (if rest.isEmpty then [] else go fuel rest)

/-- the `use` part of `resolve_position`: x / y of a `use` translate its target, so the element's own
    box is the target's box moved by that much. The position gets the target's size and, where the
    element has `x` / `y`, is read through the target's corner; that corner is handed on for
    `useWriteBack`. -/
def usePosition (c : Ctx) (e : Elem) (p : Position) : Except Err (Position × Option (Rat × Rat)) :=
  if e.name == cs!"use" then
    match (e.getAttr cs!"href").orElse (fun _ => e.getAttr cs!"xlink:href") with
    | some href => do
      let r ← parseElref href
      match c.get r with
      | none => throw Err.reference
      | some el =>
        let t ← c.target (c.elems.length + 2) el
        let sz ← t.size c
        let p := (match sz with
          | some (w, h) => { p with width := some w, height := some h }
          | none => p)
        let tb ← c.bb el
        match tb with
        | some b =>
          -- (only a delta on an axis: the target is moved from where it stands)
          let p := if e.hasAttr ['x'] then { p with xmin := p.xmin.map (· + b.x1) }
            else if p.xmax.isNone && p.cx.isNone && p.dx.isSome then { p with xmin := some b.x1 } else p
          let p := if e.hasAttr ['y'] then { p with ymin := p.ymin.map (· + b.y1) }
            else if p.ymax.isNone && p.cy.isNone && p.dy.isSome then { p with ymin := some b.y1 } else p
          -- (without a box for the position no attributes are written, so none are written back)
          pure (p, if p.to_bbox.isSome then some (b.x1, b.y1) else none)
        | none => pure (p, none)
    | none => pure (p, none)
  else pure (p, none)

/-- … and back: x / y are the box's corner minus the target's corner -/
def useWriteBack (e : Elem) (origin : Option (Rat × Rat)) : Except Err Elem :=
  match origin with
  | none => pure e
  | some o => do
    let e ← (match e.getAttr ['x'] with
      | some v => do let n ← num v; pure (e.setAttr ['x'] (fstr (n - o.1)))
      | none => pure e)
    match e.getAttr ['y'] with
    | some v => do let n ← num v; pure (e.setAttr ['y'] (fstr (n - o.2)))
    | none => pure e

/-- `resolve_position`, minus expression evaluation (attributes are assumed expression-free) -/
def resolvePosition (c : Ctx) (e : Elem) : Except Err Elem := do
  let e ← e.handleContainment c
  let e := e.expandCompoundSize
  let e ← e.evalRelAttributes c
  let e := e.resolveSizeDelta
  let e ← (if e.name == cs!"text" && e.hasAttr cs!"text" then e.evalTextAnchor c else pure e)
  let e ← e.evalRelPosition c
  let e := e.expandCompoundPos
  let e ← e.evalRelAttributes c
  let e := (if e.name == cs!"polyline" || e.name == cs!"polygon" then
      match e.getAttr cs!"points" with
      | some pts => e.setAttr cs!"points" (expandRelspec c pts)
      | none => e
    else e)
  let e := (if e.name == cs!"path" then
      match e.getAttr ['d'] with
      | some d => e.setAttr ['d'] (expandRelspec c d)
      | none => e
    else e)
  let po ← usePosition c e e.toPosition
  useWriteBack (setPositionAttrs po.1 e) po.2

/-- `translated` -/
def translated (e : Elem) (dx dy : Rat) : Except Err Elem :=
  e.attrs.foldlM
    (fun (acc : Elem) (kv : Str × Str) =>
      if kv.1 == ['x'] || kv.1 == cs!"cx" || kv.1 == cs!"x1" || kv.1 == cs!"x2" then do
        let v ← num kv.2
        pure (acc.setAttr kv.1 (fstr (v + dx)))
      else if kv.1 == ['y'] || kv.1 == cs!"cy" || kv.1 == cs!"y1" || kv.1 == cs!"y2" then do
        let v ← num kv.2
        pure (acc.setAttr kv.1 (fstr (v + dy)))
      else pure acc)
    e

/-- the dx/dy tail of `transmute` -/
def transmuteDxDy (e : Elem) : Except Err Elem :=
  if e.name == cs!"text" || e.name == cs!"tspan" || e.name == cs!"feOffset" then .ok e
  else do
    let (e, dx) := e.popAttr cs!"dx"
    let (e, dy) := e.popAttr cs!"dy"
    let dx ← (match dx with | some v => (num v).map some | none => pure none)
    let dy ← (match dy with | some v => (num v).map some | none => pure none)
    if dx.isSome || dy.isSome then e.translated (dx.getD 0) (dy.getD 0) else pure e

end Elem
end Svgdx
