/-
  Svgdx.Geom.Connector — model of connector.rs: `<line>`/`<polyline>` with `start` and `end`.
-/
import Svgdx.Geom.Resolve
namespace Svgdx
open Str Num Gen

inductive Dir where
  | up | right | down | left
deriving Repr, DecidableEq, Inhabited

inductive ConnType where
  | horizontal | vertical | corner | straight
deriving Repr, DecidableEq, Inhabited

namespace Conn

/-- `ConnectionType::from_str` (table GENERATED; anything else is straight) -/
def connTypeOfStr (s : Str) : ConnType :=
  match Attrs.lookupTable Gen.ConnectionType.names s with
  | some n => if n == cs!"Horizontal" then .horizontal else if n == cs!"Vertical" then .vertical else .straight
  | none => .straight

def edgeLocations : ConnType → List LocSpec
  | .horizontal => [.Left, .Right]
  | .vertical => [.Top, .Bottom]
  | .corner => [.Top, .Right, .Bottom, .Left]
  | .straight => [.Top, .Bottom, .Left, .Right, .TopLeft, .BottomLeft, .TopRight, .BottomRight]

def distSq (p q : Rat × Rat) : Rat := (p.1 - q.1) * (p.1 - q.1) + (p.2 - q.2) * (p.2 - q.2)

/-- first strict minimum of `f` over `xs`, starting from `(init, none)` ("f32::MAX") -/
def argminFirst {α : Type} (f : α → Rat) (init : α) (xs : List α) : α :=
  (xs.foldl (fun (acc : α × Option Rat) x =>
      match acc.2 with
      | none => (x, some (f x))
      | some m => if f x < m then (x, some (f x)) else acc)
    (init, none)).1

/-- `closest_loc` -/
def closestLoc (bb : BoundingBox) (point : Rat × Rat) (ct : ConnType) : LocSpec :=
  argminFirst (fun loc => distSq (bb.locspec loc) point) LocSpec.Center (edgeLocations ct)

/-- `shortest_link` -/
def shortestLink (a b : BoundingBox) (ct : ConnType) : LocSpec × LocSpec :=
  let pairs := (edgeLocations ct).flatMap fun l1 => (edgeLocations ct).map fun l2 => (l1, l2)
  argminFirst (fun p => distSq (a.locspec p.1) (b.locspec p.2)) (LocSpec.Center, LocSpec.Center) pairs

def locToDir : LocSpec → Option Dir
  | .Top | .TopEdge _ => some .up
  | .Right | .RightEdge _ => some .right
  | .Bottom | .BottomEdge _ => some .down
  | .Left | .LeftEdge _ => some .left
  | _ => none

structure Endpoint where
  origin : Rat × Rat
  dir : Option Dir
deriving Repr, Inhabited

/-- one end of the connector as written: an element (with optional location) or a literal point -/
inductive EndSpec where
  | elem (el : Option Elem) (loc : Option LocSpec)
  | point (p : Rat × Rat)
deriving Inhabited

def parseEnd (c : Ctx) (s : Str) : Except Err EndSpec :=
  match parseElLoc s with
  | .ok (r, loc) => .ok (.elem (c.get r) loc)
  | .error _ =>
    match (attrSplit s).map strp with
    | some x :: some y :: _ => .ok (.point (x, y))
    | _ => .error .invalidData

def needBB (c : Ctx) (e : Elem) : Except Err BoundingBox := do
  match ← c.bb e with
  | some b => pure b
  | none => throw Err.missingBBox

structure Connector where
  source : Elem
  startEl : Option Elem
  endEl : Option Elem
  start : Endpoint
  end_ : Endpoint
  connType : ConnType
  offset : Option Length

/-- `Connector::from_element` -/
def fromElement (c : Ctx) (e : Elem) (ct : ConnType) : Except Err Connector := do
  let (e, startRef) := e.popAttr cs!"start"
  let (e, endRef) := e.popAttr cs!"end"
  let startRef ← (match startRef with | some s => pure s | none => throw Err.missingAttr)
  let endRef ← (match endRef with | some s => pure s | none => throw Err.missingAttr)
  let (e, off) := e.popAttr cs!"corner-offset"
  let offset ← (match off with
    | some o => (match parseLength o with | some l => pure (some l) | none => throw Err.parse)
    | none => pure none)
  let s ← parseEnd c startRef
  let t ← parseEnd c endRef
  let elOf := fun (x : EndSpec) => (match x with | .elem el _ => el | .point _ => none)
  let mk := fun (p : Rat × Rat) (l : Option LocSpec) => (⟨p, l.bind locToDir⟩ : Endpoint)
  let (st, en) ← (match s, t with
    | .point sp, .point ep => pure ((⟨sp, none⟩ : Endpoint), (⟨ep, none⟩ : Endpoint))
    | .point sp, .elem eel eloc => do
      let eel ← (match eel with | some x => pure x | none => throw Err.other)
      let bb ← needBB c eel
      let loc := match eloc with | some l => l | none => closestLoc bb sp ct
      pure ((⟨sp, none⟩ : Endpoint), mk (bb.locspec loc) (some loc))
    | .elem sel sloc, .point ep => do
      let sel ← (match sel with | some x => pure x | none => throw Err.other)
      let bb ← needBB c sel
      let loc := match sloc with | some l => l | none => closestLoc bb ep ct
      pure (mk (bb.locspec loc) (some loc), (⟨ep, none⟩ : Endpoint))
    | .elem sel sloc, .elem eel eloc => do
      let sel ← (match sel with | some x => pure x | none => throw Err.other)
      let eel ← (match eel with | some x => pure x | none => throw Err.other)
      match sloc, eloc with
      | none, none => do
        let sb ← needBB c sel
        let eb ← needBB c eel
        let (l1, l2) := shortestLink sb eb ct
        pure (mk (sb.locspec l1) (some l1), mk (eb.locspec l2) (some l2))
      | none, some l2 => do
        let eb ← needBB c eel
        let ec := eb.locspec l2
        let sb ← needBB c sel
        let l1 := closestLoc sb ec ct
        pure (mk (sb.locspec l1) (some l1), mk ec (some l2))
      | some l1, none => do
        let sb ← needBB c sel
        let sc := sb.locspec l1
        let eb ← needBB c eel
        let l2 := closestLoc eb sc ct
        pure (mk sc (some l1), mk (eb.locspec l2) (some l2))
      | some l1, some l2 => do
        let sb ← needBB c sel
        let eb ← needBB c eel
        pure (mk (sb.locspec l1) (some l1), mk (eb.locspec l2) (some l2)))
  pure { source := e, startEl := elOf s, endEl := elOf t, start := st, end_ := en, connType := ct,
         offset := offset }

/-- the point list of a corner connector (the `Corner` arm of `render`) -/
def cornerPoints (s e : Rat × Rat) (sd ed : Option Dir) (offset : Option Length) : Except Err (List (Rat × Rat)) :=
  let (x1, y1) := s
  let (x2, y2) := e
  let ratioOff := offset.getD (Length.Ratio ((1 : Rat) / 2))
  let absOff : Except Err Rat :=
    match offset.getD (Length.Absolute 3) with
    | .Absolute a => .ok a
    | .Ratio _ => .error .invalidData
  match sd, ed with
  | some sd, some ed =>
    match sd, ed with
    | .up, .left | .up, .right | .down, .left | .down, .right => .ok [(x1, y1), (x1, y2), (x2, y2)]
    | .left, .up | .left, .down | .right, .up | .right, .down => .ok [(x1, y1), (x2, y1), (x2, y2)]
    | .left, .right | .right, .left =>
      let mx := ratioOff.calc_offset x1 x2
      .ok [(x1, y1), (mx, y1), (mx, y2), (x2, y2)]
    | .up, .down | .down, .up =>
      let my := ratioOff.calc_offset y1 y2
      .ok [(x1, y1), (x1, my), (x2, my), (x2, y2)]
    | .left, .left => absOff.map fun a => let mx := Rq.min x1 x2 - a; [(x1, y1), (mx, y1), (mx, y2), (x2, y2)]
    | .right, .right => absOff.map fun a => let mx := Rq.max x1 x2 + a; [(x1, y1), (mx, y1), (mx, y2), (x2, y2)]
    | .up, .up => absOff.map fun a => let my := Rq.min y1 y2 - a; [(x1, y1), (x1, my), (x2, my), (x2, y2)]
    | .down, .down => absOff.map fun a => let my := Rq.max y1 y2 + a; [(x1, y1), (x1, my), (x2, my), (x2, y2)]
  | _, _ => .ok [(x1, y1), (x2, y2)]

def lineElem (x1 y1 x2 y2 : Rat) (src : Elem) : Elem :=
  (Elem.new cs!"line" [(cs!"x1", fstr x1), (cs!"y1", fstr y1), (cs!"x2", fstr x2), (cs!"y2", fstr y2)]).withAttrsFrom src

def pointsStr (pts : List (Rat × Rat)) : Str :=
  intercalate cs!", " (pts.map fun p => fstr p.1 ++ [' '] ++ fstr p.2)

/-- middle of the overlap of two intervals -/
def overlapMid (a1 a2 b1 b2 : Rat) : Rat := (Rq.max a1 b1 + Rq.min a2 b2) / 2

/-- `Connector::render` -/
def render (c : Ctx) (k : Connector) : Except Err Elem := do
  let (x1, y1) := k.start.origin
  let (x2, y2) := k.end_.origin
  match k.connType with
  | .horizontal =>
    let mid ← (match k.startEl, k.endEl with
      | some se, some ee => do
        let sb ← needBB c se
        let eb ← needBB c ee
        pure (overlapMid (sb.scalarspec .Miny) (sb.scalarspec .Maxy) (eb.scalarspec .Miny) (eb.scalarspec .Maxy))
      | _, _ => pure y1)
    pure (lineElem x1 mid x2 mid k.source)
  | .vertical =>
    let mid ← (match k.startEl, k.endEl with
      | some se, some ee => do
        let sb ← needBB c se
        let eb ← needBB c ee
        pure (overlapMid (sb.scalarspec .Minx) (sb.scalarspec .Maxx) (eb.scalarspec .Minx) (eb.scalarspec .Maxx))
      | _, _ => pure x1)
    pure (lineElem mid y1 mid y2 k.source)
  | .straight => pure (lineElem x1 y1 x2 y2 k.source)
  | .corner => do
    let pts ← cornerPoints (x1, y1) (x2, y2) k.start.dir k.end_.dir k.offset
    match pts with
    | [p, q] => pure (lineElem p.1 p.2 q.1 q.2 k.source)
    | _ => pure ((Elem.new cs!"polyline" [(cs!"points", pointsStr pts)]).withAttrsFrom k.source)

def isConnector (e : Elem) : Bool :=
  e.hasAttr cs!"start" && e.hasAttr cs!"end" && (e.name == cs!"line" || e.name == cs!"polyline")

/-- the connector part of `transmute` -/
def transmuteConnector (c : Ctx) (e : Elem) : Except Err Elem :=
  if isConnector e then
    let ct := match e.getAttr cs!"edge-type" with
      | some t => connTypeOfStr t
      | none => if e.name == cs!"polyline" then .corner else .straight
    match fromElement c e ct with
    | .ok k => (render c k).map fun r => r.withoutAttr cs!"edge-type"
    | .error _ => .error .invalidData
  else .ok e

end Conn

/-- `OtherElement`'s pipeline: resolve, transmute (connector, dx/dy), resolve -/
def Elem.process (c : Ctx) (e : Elem) : Except Err Elem := do
  let e ← e.resolvePosition c
  let e ← Conn.transmuteConnector c e
  let e ← e.transmuteDxDy
  e.resolvePosition c

end Svgdx
