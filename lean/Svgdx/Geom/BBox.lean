/-
  Svgdx.Geom.BBox — bounding box of a (resolved) element from its own attributes:
  `SvgElement::bbox_raw`, `bbox` (content box, `transform` list), `size`, `inscribed_bbox`;
  the `transform` attribute parser of transform_attr.rs.
-/
import Svgdx.Geom.Parse
import Svgdx.Path.Scan
namespace Svgdx
open Str Num Gen

inductive Xf where
  | translate (tx ty : Rat)
  | scale (sx sy : Rat)
  | other
deriving Repr, DecidableEq, Inhabited

def isXfSep (c : Char) : Bool := c == ',' || c == ' ' || c == '\t' || c == '\n' || c == '\r'

/-- Rust `split_inclusive(')')` -/
def splitInclusiveParen (s : Str) : List Str :=
  go s []
where
  go : Str → Str → List Str
  | [], cur => if cur.isEmpty then [] else [cur.reverse]
  | c :: cs, cur => if c == ')' then (c :: cur).reverse :: go cs [] else go cs (c :: cur)

def asciiLower (s : Str) : Str := s.map Num.lower

/-- all pieces parse, else none -/
def allSome {α : Type} : List (Option α) → Option (List α)
  | [] => some []
  | none :: _ => none
  | some x :: xs => (allSome xs).map (x :: ·)

/-- `TransformType::from_str` -/
def parseXf (s : Str) : Option Xf :=
  match splitOnce '(' s with
  | none => none
  | some (name, rest) =>
    match stripSuffix [')'] rest with
    | none => none
    | some argstr =>
      match svgNumberList (argstr.length + 1) argstr with
      | none => none
      | some args =>
        -- white space may separate the name from its parenthesis (`name.trim()`)
        let n := asciiLower (trim name)
        if n == cs!"translate" then
          match args with
          | [a] => some (.translate a 0)
          | [a, b] => some (.translate a b)
          | _ => none
        else if n == cs!"scale" then
          match args with
          | [a] => some (.scale a a)
          | [a, b] => some (.scale a b)
          | _ => none
        else if n == cs!"rotate" then
          (if args.length == 1 || args.length == 3 then some .other else none)
        else if n == cs!"skewx" || n == cs!"skewy" then
          (if args.length == 1 then some .other else none)
        else if n == cs!"matrix" then
          (if args.length == 6 then some .other else none)
        else none

/-- `TransformAttr::from_str` -/
def parseXfList (s : Str) : Option (List Xf) :=
  allSome ((((splitInclusiveParen s).map trim).filter (· ≠ [])).map
    (fun v => parseXf (v.dropWhile isXfSep)))

/-- `TransformAttr::apply`: last transform first; only translate and scale move the box -/
def applyXfList (xs : List Xf) (b : BoundingBox) : BoundingBox :=
  xs.reverse.foldl
    (fun r x =>
      match x with
      | .translate tx ty => r.xfrm_translate tx ty
      | .scale sx sy => r.xfrm_scale sx sy
      | .other => r)
    b

/-- `passthrough` of bbox_raw: not a number and free of `$ # ^` -/
def passthrough (v : Str) : Bool :=
  (strp v).isNone && !(v.contains '$' || v.contains '#' || v.contains '^')

def zstr : Str := ['0']

/-- `points` attribute scan of bbox_raw: alternate x / y over the list of SVG numbers -/
def pointsBBox (pts : Str) : Except Err (Option BoundingBox) :=
  match svgNumberList (pts.length + 1) pts with
  | none => .error .parse
  | some nums =>
    let xs := (nums.zipIdx.filter (fun p => p.2 % 2 == 0)).map (·.1)
    let ys := (nums.zipIdx.filter (fun p => p.2 % 2 == 1)).map (·.1)
    match xs, ys with
    | x :: xt, y :: yt =>
      .ok (some ⟨xt.foldl Rq.min x, yt.foldl Rq.min y, xt.foldl Rq.max x, yt.foldl Rq.max y⟩)
    | _, _ => .ok none

namespace Elem

def num (v : Str) : Except Err Rat :=
  match strp v with
  | some q => .ok q
  | none => .error .parse

/-- `SvgElement::bbox_raw` -/
def bboxRaw (e : Elem) : Except Err (Option BoundingBox) :=
  let a := fun k => (e.attrs.get k)
  let ad := fun k => (a k).getD zstr
  if e.name == cs!"point" || e.name == cs!"text" then
    let x := ad ['x']; let y := ad ['y']
    if passthrough x || passthrough y then .ok none
    else do
      let x ← num x; let y ← num y
      return some ⟨x, y, x, y⟩
  else if e.name == cs!"box" || e.name == cs!"rect" || e.name == cs!"image" || e.name == cs!"svg"
      || e.name == cs!"foreignObject" then
    match a cs!"width", a cs!"height" with
    | some w, some h =>
      let x := ad ['x']; let y := ad ['y']
      if passthrough x || passthrough y || passthrough w || passthrough h then .ok none
      else do
        let x ← num x; let y ← num y; let w ← num w; let h ← num h
        return some ⟨x, y, x + w, y + h⟩
    | _, _ => .ok none
  else if e.name == cs!"line" then
    let x1 := ad cs!"x1"; let y1 := ad cs!"y1"; let x2 := ad cs!"x2"; let y2 := ad cs!"y2"
    if passthrough x1 || passthrough y1 || passthrough x2 || passthrough y2 then .ok none
    else do
      let x1 ← num x1; let y1 ← num y1; let x2 ← num x2; let y2 ← num y2
      return some ⟨Rq.min x1 x2, Rq.min y1 y2, Rq.max x1 x2, Rq.max y1 y2⟩
  else if e.name == cs!"polyline" || e.name == cs!"polygon" then
    match a cs!"points" with
    | some pts => pointsBBox pts
    | none => .ok none
  else if e.name == cs!"path" then
    match a ['d'] with
    | some d =>
      match Path.pathBBox d with
      | .ok b => .ok b
      | .err => .error .parse
      | .outOfFuel => .error .other
    | none => .ok none
  else if e.name == cs!"circle" then
    match a ['r'] with
    | some r =>
      let cx := ad cs!"cx"; let cy := ad cs!"cy"
      if passthrough cx || passthrough cy || passthrough r then .ok none
      else do
        let cx ← num cx; let cy ← num cy; let r ← num r
        return some ⟨cx - r, cy - r, cx + r, cy + r⟩
    | none => .ok none
  else if e.name == cs!"ellipse" then
    match a cs!"rx", a cs!"ry" with
    | some rx, some ry =>
      let cx := ad cs!"cx"; let cy := ad cs!"cy"
      if passthrough cx || passthrough cy || passthrough rx || passthrough ry then .ok none
      else do
        let cx ← num cx; let cy ← num cy; let rx ← num rx; let ry ← num ry
        return some ⟨cx - rx, cy - ry, cx + rx, cy + ry⟩
    | _, _ => .ok none
  else .ok none

/-- `SvgElement::bbox`: content box or raw box, through the `transform` attribute -/
def bbox (e : Elem) : Except Err (Option BoundingBox) := do
  let b ← (match e.contentBBox with
    | some b => .ok (some b)
    | none => e.bboxRaw)
  match e.attrs.get cs!"transform", b with
  | some t, some b =>
    match parseXfList t with
    | some xs => return some (applyXfList xs b)
    | none => .error .parse
  | _, _ => return b

end Elem
end Svgdx
