/-
  Svgdx.Geom.Parse — parsers for the small spec languages: element references, lengths,
  LocSpec / ScalarSpec / DirSpec (tables GENERATED from the FromStr impls), TrblLength.
  Identifier classification is modelled on ASCII (the generators use ASCII ids only).
-/
import Svgdx.Geom.Attrs
namespace Svgdx
open Str Num Gen

inductive Err where
  | parse | invalidData | reference | missingBBox | circular | missingAttr | other
  /-- `DepthLimitExceeded` raised by the expression evaluator (`MAX_EXPR_DEPTH`) -/
  | exprDepth
deriving Repr, DecidableEq, Inhabited

def Err.name : Err → String
  | .parse => "ParseError"
  | .invalidData => "InvalidData"
  | .reference => "ReferenceError"
  | .missingBBox => "MissingBoundingBox"
  | .circular => "CircularRefError"
  | .missingAttr => "MissingAttribute"
  | .other => "Other"
  | .exprDepth => "DepthLimitExceeded"

inductive ElRef where
  | id (s : Str)
  | prev
deriving Repr, DecidableEq, Inhabited

def idFirst (c : Char) : Bool := isAsciiAlpha c || c == '_'
def idRest (c : Char) : Bool := isAsciiAlnum c || c == '_' || c == '-'

/-- `extract_elref`: `(ElRef, remain)` -/
def extractElref (s : Str) : Option (ElRef × Str) :=
  match s with
  | '#' :: rest =>
    match rest with
    | c :: _ => if idFirst c then some (.id (rest.takeWhile idRest), rest.dropWhile idRest) else none
    | [] => none
  | '^' :: rest => some (.prev, rest)
  | _ => none

/-- `ElRef::from_str` -/
def parseElref (s : Str) : Except Err ElRef :=
  match extractElref s with
  | some (r, []) => .ok r
  | _ => .error .parse

/-- `Length::from_str` -/
def parseLength (s : Str) : Option Length :=
  let v := trim s
  match stripSuffix ['%'] v with
  | some pc => (strp pc).map fun q => Length.Ratio (q * ((1 : Rat) / 100))
  | none => (strp v).map Length.Absolute

def parseDirSpec (s : Str) : Option DirSpec := Attrs.lookupTable DirSpec.fromStrTable s

def parseScalarSpec (s : Str) : Option ScalarSpec := Attrs.lookupTable ScalarSpec.fromStrTable s

/-- `LocSpec::from_str`: fixed names from the generated table, else `edge:length` -/
def parseLocSpec (s : Str) : Option LocSpec :=
  match Attrs.lookupTable LocSpec.fromStrTable s with
  | some l => some l
  | none =>
    match splitOnce ':' s with
    | some (edge, len) =>
      match parseLength len with
      | some l => (Attrs.lookupTable LocSpec.edgeTable edge).map (· l)
      | none => none
    | none => none

/-- the `match parts.len()` table of `TrblLength::from_str`: CSS order -/
def trblOfList : List Length → Option TrblLength
  | [a] => some ⟨a, a, a, a⟩
  | [a, b] => some ⟨a, b, a, b⟩
  | [a, b, c] => some ⟨a, b, c, b⟩
  | [a, b, c, d] => some ⟨a, b, c, d⟩
  | _ => none

/-- `TrblLength::from_str` -/
def parseTrbl (s : Str) : Option TrblLength :=
  let parts := (attrSplit s).map parseLength
  if parts.any Option.isNone then none else trblOfList (parts.filterMap id)

/-- `parse_el_loc`: elref + optional `@loc` (no whitespace allowed) -/
def parseElLoc (s : Str) : Except Err (ElRef × Option LocSpec) :=
  match extractElref s with
  | none => .error .parse
  | some (r, []) => .ok (r, none)
  | some (r, '@' :: loc) =>
    if loc.any isWs then .error .parse
    else
      match parseLocSpec loc with
      | some l => .ok (r, some l)
      | none => .error .invalidData
  | some _ => .error .parse

end Svgdx
