/-
  Svgdx.Expr.Token — the number-operation record the expression evaluator is generic in, the token type
  and the tokenizer of svgdx/src/expression.rs (`tokenize`, `tokenize_atom`, `valid_variable_name`,
  `valid_symbol`).  Core-only (no Mathlib, no Std).
-/
import Svgdx.Base.Str
import Svgdx.Base.Num
namespace Svgdx
namespace Expr
open Str

/-- Error classes of `SvgdxError` that expression evaluation can produce, plus the two outcomes the
    Rust type system does not show: a panic site and the model's own fuel running out. -/
inductive Err where
  | parse          -- SvgdxError::ParseError
  | circular       -- SvgdxError::CircularRefError
  | invalidData    -- SvgdxError::InvalidData
  | reference      -- SvgdxError::ReferenceError / MissingBoundingBox (element references)
  | panic          -- a Rust panic site (`f32::clamp` with a NaN bound)
  | nanOrder       -- `min`/`max` over a NaN: `total_cmp` orders by the NaN's sign bit, a platform detail
                   -- outside the model (Lean's `Float32.toBits` canonicalises NaN); monitored, not guessed
  | unmodelled     -- a table entry the model has no semantics for (new function in the source)
  | outOfFuel      -- model artefact; never produced with the fuel the entry points supply
  | depthLimit     -- SvgdxError::DepthLimitExceeded: an expression nested deeper than `MAX_EXPR_DEPTH`
deriving DecidableEq, Repr

def Err.name : Err → String
  | .parse => "ParseError"
  | .circular => "CircularRefError"
  | .invalidData => "InvalidData"
  | .reference => "ReferenceError"
  | .panic => "panic"
  | .nanOrder => "nanOrder"
  | .unmodelled => "unmodelled"
  | .outOfFuel => "outOfFuel"
  | .depthLimit => "DepthLimitExceeded"

/--
  The number operations of the evaluator (`f32` in the implementation) and the random source.
  `α` = numbers, `σ` = state of the random source.  Instances: exact `Rat` (proofs, `Svgdx.Expr.ratOps`),
  `Float32` (driver, `Driver.f32Ops`).
-/
structure Ops (α σ : Type) where
  /-- Rust `str::parse::<f32>()` (no trimming) -/
  parse : Str → Option α
  /-- svgdx `fstr` -/
  fstr : α → Str
  zero : α
  one : α
  add : α → α → α
  sub : α → α → α
  mul : α → α → α
  div : α → α → α
  remEuclid : α → α → α
  divEuclid : α → α → α
  neg : α → α
  lt : α → α → Bool
  le : α → α → Bool
  eq : α → α → Bool
  /-- `f32::total_cmp(a, b) != Greater` -/
  totalLe : α → α → Bool
  isNaN : α → Bool
  floor : α → α
  ceil : α → α
  trunc : α → α
  abs : α → α
  signum : α → α
  sqrt : α → α
  ln : α → α
  exp : α → α
  pow : α → α → α
  sin : α → α
  cos : α → α
  tan : α → α
  asin : α → α
  acos : α → α
  atan : α → α
  atan2 : α → α → α
  hypot : α → α → α
  toRadians : α → α
  toDegrees : α → α
  /-- `x as usize` (saturating, NaN → 0) -/
  toUsize : α → Nat
  /-- `x as i32` (saturating, NaN → 0) -/
  toI32 : α → Int
  /-- `n as f32` for a `usize` -/
  ofNat : Nat → α
  /-- `rng.random::<f32>()` -/
  random : σ → α × σ
  /-- `rng.random_range(lo..=hi) as f32` for `i32` bounds `lo ≤ hi` -/
  randint : Int → Int → σ → α × σ

inductive Token (α : Type) where
  | number (x : α)
  | var (v : Str)
  | elref (v : Str)
  | string (s : Str)
  | symbol (s : Str)
  | openParen
  | closeParen
  | comma
  | add
  | sub
  | mul
  | div
  | mod
deriving Repr

def VAR_PREFIX : Char := '$'
def OPEN_BRACE : Char := '{'
def END_BRACE : Char := '}'
def ELREF_ID_PREFIX : Char := '#'
def ELREF_PREVIOUS : Char := '^'

/-- `valid_variable_name` -/
def validVariableName (v : Str) : Bool :=
  match v with
  | [] => false
  | c :: r => isAsciiAlpha c && r.all (fun c => isAsciiAlnum c || c == '_')

/-- `valid_symbol` -/
def validSymbol (s : Str) : Bool :=
  match s with
  | [] => false
  | c :: r => (isAsciiAlpha c || c == '_') && r.all (fun c => isAsciiAlnum c || c == '_')

section
variable {α σ : Type} (o : Ops α σ)

/-- `tokenize_atom` -/
def tokenizeAtom (input : Str) : Except Err (Token α) :=
  match input with
  | '$' :: rest =>
    let varName : Option Str :=
      match rest with
      | '{' :: inner => stripSuffix [END_BRACE] inner
      | _ => some rest
    match varName with
    | some v => if validVariableName v then .ok (.var v) else .error .parse
    | none => .error .parse
  | _ =>
    match input with
    | '#' :: _ => .ok (.elref input)
    | '^' :: _ => .ok (.elref input)
    | _ =>
      match o.parse input with
      | some x => .ok (.number x)
      | none => if validSymbol input then .ok (.symbol input) else .error .parse

/-- flush the `Other` buffer (kept reversed) as one atom -/
def flushBuf (buf : Str) (toks : List (Token α)) : Except Err (List (Token α)) :=
  if buf.isEmpty then .ok toks
  else
    match tokenizeAtom o buf.reverse with
    | .ok t => .ok (t :: toks)
    | .error e => .error e

/-- classification of a character outside quotes: a one-character token, whitespace, or `Other` -/
inductive CharClass (α : Type) where
  | tok (t : Token α)
  | ws
  | quote
  | elrefStart
  | other

def classify (inElref : Bool) (ch : Char) : CharClass α :=
  if ch == '(' then .tok .openParen
  else if ch == ')' then .tok .closeParen
  else if ch == '+' then .tok .add
  else if ch == '-' then (if inElref then .other else .tok .sub)
  else if ch == '*' then .tok .mul
  else if ch == '/' then .tok .div
  else if ch == '%' then .tok .mod
  else if ch == ',' then .tok .comma
  else if ch == ' ' || ch == '\t' then .ws
  else if ch == '\'' || ch == '"' then .quote
  else if ch == ELREF_ID_PREFIX then .elrefStart
  else .other

/--
  The character loop of `tokenize`. `toks` and `buf` are kept reversed. `quote` is `in_quote`,
  `esc` is `string_escape`. Faithful to the source including its quirks: an opening quote does not
  flush the buffer (`ab'cd'` is the string "abcd"), an unterminated quote with an empty buffer is
  accepted, `-` is an ordinary character while inside a `#id`.
-/
def tokLoop : Str → List (Token α) → Str → Bool → Option Char → Bool → Except Err (List (Token α))
  | [], toks, buf, _, quote, _ =>
    if buf.isEmpty then .ok toks.reverse
    else if quote.isSome then .error .parse
    else
      match flushBuf o buf toks with
      | .ok ts => .ok ts.reverse
      | .error e => .error e
  | ch :: rest, toks, buf, inElref, some qt, esc =>
    if ch == qt && !esc then tokLoop rest (.string buf.reverse :: toks) [] inElref none false
    else if ch == '\\' && !esc then tokLoop rest toks buf inElref (some qt) true
    else if ch == 'n' && esc then tokLoop rest toks ('\n' :: buf) inElref (some qt) false
    else tokLoop rest toks (ch :: buf) inElref (some qt) false
  | ch :: rest, toks, buf, inElref, none, esc =>
    match (classify inElref ch : CharClass α) with
    | .quote => tokLoop rest toks buf inElref (some ch) esc
    | .elrefStart => tokLoop rest toks (ch :: buf) true none esc
    | .other => tokLoop rest toks (ch :: buf) inElref none esc
    | .ws =>
      match flushBuf o buf toks with
      | .ok ts => tokLoop rest ts [] false none esc
      | .error e => .error e
    | .tok t =>
      match flushBuf o buf toks with
      | .ok ts => tokLoop rest (t :: ts) [] false none esc
      | .error e => .error e

/-- `tokenize` -/
def tokenize (input : Str) : Except Err (List (Token α)) :=
  tokLoop o input [] [] false none false

end
end Expr
end Svgdx
