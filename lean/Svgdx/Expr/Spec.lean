/-
  Svgdx.Expr.Spec — the specification side of C14: a grammar-shaped abstract syntax for `{{…}}`
  expressions (one inductive per precedence level, operator tails as their own inductives), its
  printer to tokens, its size (the fuel the evaluator needs) and its CONVENTIONAL DENOTATION:
  a compositional, left-to-right evaluation written on the tree, without tokens, cursor or fuel.

  The documented grammar (docs/mdbook/src/reference/expressions.md), lowest precedence first:
      list    ::= logic ("," logic)*
      logic   ::= cmp (("and" | "or" | "xor") cmp)*          one level, left to right, no short circuit
      cmp     ::= term (("eq"|"ne"|"gt"|"ge"|"lt"|"le") term)?   at most one comparison per operand pair
      term    ::= factor (("+" | "-") factor)*               left to right
      factor  ::= primary (("*" | "/" | "%") primary)*       left to right, % is the non-negative remainder
      primary ::= number | string | $var | #ref | "-" primary | "(" [list] ")" | name "(" [list] ")"
  Values are numbers, strings, text, or flat lists of these; an operator needs single numbers.
-/
import Svgdx.Expr.Eval
namespace Svgdx
namespace Expr
open Str

inductive MulOp where
  | mul | div | mod
deriving DecidableEq, Repr

/-- source name of a comparison operator: the first entry of the generated table that parses to it -/
def nameOf {β : Type} [DecidableEq β] (parse : Str → Option β) (x : β) : List (Str × Str) → Str
  | [] => []
  | (n, _) :: r => if parse n = some x then n else nameOf parse x r

def CmpOp.name (op : CmpOp) : Str := nameOf parseCmpOp op Gen.ComparisonOp.names
def LogOp.name (op : LogOp) : Str := nameOf parseLogOp op Gen.LogicalOp.names

def funcOf (n : Str) : Option Func :=
  match parseFunction n with
  | .known f => some f
  | _ => none

def Func.name (f : Func) : Str := nameOf funcOf f Gen.Function.names

mutual
inductive Prim (α : Type) where
  | num (x : α)
  | str (s : Str)
  | var (v : Str)
  | elref (v : Str)
  | paren (a : Args α)
  | neg (p : Prim α)
  | call (f : Func) (a : Args α)
inductive Fact (α : Type) where
  | mk (p : Prim α) (rest : MulTail α)
inductive MulTail (α : Type) where
  | nil
  | cons (op : MulOp) (p : Prim α) (rest : MulTail α)
inductive Term (α : Type) where
  | mk (f : Fact α) (rest : AddTail α)
inductive AddTail (α : Type) where
  | nil
  | cons (isAdd : Bool) (f : Fact α) (rest : AddTail α)
inductive Cmp (α : Type) where
  | single (t : Term α)
  | pair (t : Term α) (op : CmpOp) (t2 : Term α)
inductive Logic (α : Type) where
  | mk (c : Cmp α) (rest : LogTail α)
inductive LogTail (α : Type) where
  | nil
  | cons (op : LogOp) (c : Cmp α) (rest : LogTail α)
inductive EList (α : Type) where
  | mk (e : Logic α) (rest : ETail α)
inductive ETail (α : Type) where
  | nil
  | cons (e : Logic α) (rest : ETail α)
inductive Args (α : Type) where
  | none
  | some (l : EList α)
end

def MulOp.tok {α : Type} : MulOp → Token α
  | .mul => .mul
  | .div => .div
  | .mod => .mod

section
variable {α : Type}

-- printer: the token string of a tree
mutual
def pPrim : Prim α → List (Token α)
  | .num x => [.number x]
  | .str s => [.string s]
  | .var v => [.var v]
  | .elref v => [.elref v]
  | .paren a => [.openParen] ++ pArgs a ++ [.closeParen]
  | .neg p => [.sub] ++ pPrim p
  | .call f a => [.symbol f.name, .openParen] ++ pArgs a ++ [.closeParen]
def pFact : Fact α → List (Token α)
  | .mk p rest => pPrim p ++ pMulTail rest
def pMulTail : MulTail α → List (Token α)
  | .nil => []
  | .cons op p rest => [op.tok] ++ pPrim p ++ pMulTail rest
def pTerm : Term α → List (Token α)
  | .mk f rest => pFact f ++ pAddTail rest
def pAddTail : AddTail α → List (Token α)
  | .nil => []
  | .cons isAdd f rest => [if isAdd then .add else .sub] ++ pFact f ++ pAddTail rest
def pCmp : Cmp α → List (Token α)
  | .single t => pTerm t
  | .pair t op t2 => pTerm t ++ [.symbol op.name] ++ pTerm t2
def pLogic : Logic α → List (Token α)
  | .mk c rest => pCmp c ++ pLogTail rest
def pLogTail : LogTail α → List (Token α)
  | .nil => []
  | .cons op c rest => [.symbol op.name] ++ pCmp c ++ pLogTail rest
def pEList : EList α → List (Token α)
  | .mk e rest => pLogic e ++ pETail rest
def pETail : ETail α → List (Token α)
  | .nil => []
  | .cons e rest => [.comma] ++ pLogic e ++ pETail rest
def pArgs : Args α → List (Token α)
  | .none => []
  | .some l => pEList l
end

-- size: the fuel the evaluator needs
mutual
def szPrim : Prim α → Nat
  | .num _ => 1
  | .str _ => 1
  | .var _ => 1
  | .elref _ => 1
  | .paren a => szArgs a + 1
  | .neg p => szPrim p + 1
  | .call _ a => szArgs a + 1
def szFact : Fact α → Nat
  | .mk p rest => szPrim p + szMulTail rest + 1
def szMulTail : MulTail α → Nat
  | .nil => 1
  | .cons _ p rest => szPrim p + szMulTail rest + 1
def szTerm : Term α → Nat
  | .mk f rest => szFact f + szAddTail rest + 1
def szAddTail : AddTail α → Nat
  | .nil => 1
  | .cons _ f rest => szFact f + szAddTail rest + 1
def szCmp : Cmp α → Nat
  | .single t => szTerm t + 1
  | .pair t _ t2 => szTerm t + szTerm t2 + 1
def szLogic : Logic α → Nat
  | .mk c rest => szCmp c + szLogTail rest + 1
def szLogTail : LogTail α → Nat
  | .nil => 1
  | .cons _ c rest => szCmp c + szLogTail rest + 1
def szEList : EList α → Nat
  | .mk e rest => szLogic e + szETail rest + 1
def szETail : ETail α → Nat
  | .nil => 0
  | .cons e rest => szLogic e + szETail rest + 1
def szArgs : Args α → Nat
  | .none => 1
  | .some l => szEList l + 1
end

-- number of `random()` / `randint()` call nodes; a variable contributes what its evaluation draws
mutual
def rcPrim (vd : Str → Nat) : Prim α → Nat
  | .num _ => 0
  | .str _ => 0
  | .var v => vd v
  | .elref _ => 0
  | .paren a => rcArgs vd a
  | .neg p => rcPrim vd p
  | .call f a => rcArgs vd a + (if f = .Random ∨ f = .RandInt then 1 else 0)
def rcFact (vd : Str → Nat) : Fact α → Nat
  | .mk p rest => rcPrim vd p + rcMulTail vd rest
def rcMulTail (vd : Str → Nat) : MulTail α → Nat
  | .nil => 0
  | .cons _ p rest => rcPrim vd p + rcMulTail vd rest
def rcTerm (vd : Str → Nat) : Term α → Nat
  | .mk f rest => rcFact vd f + rcAddTail vd rest
def rcAddTail (vd : Str → Nat) : AddTail α → Nat
  | .nil => 0
  | .cons _ f rest => rcFact vd f + rcAddTail vd rest
def rcCmp (vd : Str → Nat) : Cmp α → Nat
  | .single t => rcTerm vd t
  | .pair t _ t2 => rcTerm vd t + rcTerm vd t2
def rcLogic (vd : Str → Nat) : Logic α → Nat
  | .mk c rest => rcCmp vd c + rcLogTail vd rest
def rcLogTail (vd : Str → Nat) : LogTail α → Nat
  | .nil => 0
  | .cons _ c rest => rcCmp vd c + rcLogTail vd rest
def rcEList (vd : Str → Nat) : EList α → Nat
  | .mk e rest => rcLogic vd e + rcETail vd rest
def rcETail (vd : Str → Nat) : ETail α → Nat
  | .nil => 0
  | .cons e rest => rcLogic vd e + rcETail vd rest
def rcArgs (vd : Str → Nat) : Args α → Nat
  | .none => 0
  | .some l => rcEList vd l
end

end

section
variable {α σ : Type} (o : Ops α σ) (lk : Lookup α σ) (elref : Str → Res α)

def MulOp.apply (op : MulOp) (a b : α) : α :=
  match op with
  | .mul => o.mul a b
  | .div => o.div a b
  | .mod => o.remEuclid a b

/-- a value that is a single number is that number; anything else is itself -/
def normalize (v : Value α) : Value α :=
  match v.oneNumber with
  | .ok x => Value.num x
  | .error _ => v

/-
  The conventional denotation.  `ck` is the list of variables being expanded (for the circularity
  check), `st` the state of the random source; the result is a value and the new state, or an error.
  Operands are evaluated left to right, every operand exactly once (no short circuit).
-/
mutual
def dPrim : Prim α → List Str → σ → Res (Value α × σ)
  | .num x, _, st => .ok (Value.num x, st)
  | .str s, _, st => .ok (.one (.str s), st)
  | .var v, ck, st => lk v ck st
  | .elref v, _, st =>
    match elref v with
    | .ok x => .ok (Value.num x, st)
    | .error e => .error e
  | .paren a, ck, st => dArgs a ck st
  | .neg p, ck, st =>
    match dPrim p ck st with
    | .ok (v, st') =>
      match v.oneNumber with
      | .ok x => .ok (Value.num (o.neg x), st')
      | .error e => .error e
    | .error e => .error e
  | .call f a, ck, st =>
    match dArgs a ck st with
    | .ok (args, st') => evalFunction o f args st'
    | .error e => .error e
/-- `p * q / r …`: the first operand, then the tail applied left to right -/
def dFact : Fact α → List Str → σ → Res (Value α × σ)
  | .mk p rest, ck, st =>
    match dPrim p ck st with
    | .ok (v, st') =>
      match v.oneNumber with
      | .ok x =>
        match dMulTail x rest ck st' with
        | .ok (y, st'') => .ok (Value.num y, st'')
        | .error e => .error e
      | .error e =>
        -- not a single number: fine on its own (a list, a string), an error as an operand
        match rest with
        | .nil => .ok (v, st')
        | .cons _ _ _ => .error e
    | .error e => .error e
def dMulTail (acc : α) : MulTail α → List Str → σ → Res (α × σ)
  | .nil, _, st => .ok (acc, st)
  | .cons op p rest, ck, st =>
    match dPrim p ck st with
    | .ok (v, st') =>
      match v.oneNumber with
      | .ok y => dMulTail (op.apply o acc y) rest ck st'
      | .error e => .error e
    | .error e => .error e
def dTerm : Term α → List Str → σ → Res (Value α × σ)
  | .mk f rest, ck, st =>
    match dFact f ck st with
    | .ok (v, st') =>
      match v.oneNumber with
      | .ok x =>
        match dAddTail x rest ck st' with
        | .ok (y, st'') => .ok (Value.num y, st'')
        | .error e => .error e
      | .error e =>
        match rest with
        | .nil => .ok (v, st')
        | .cons _ _ _ => .error e
    | .error e => .error e
def dAddTail (acc : α) : AddTail α → List Str → σ → Res (α × σ)
  | .nil, _, st => .ok (acc, st)
  | .cons isAdd f rest, ck, st =>
    match dFact f ck st with
    | .ok (v, st') =>
      match v.oneNumber with
      | .ok y => dAddTail (if isAdd then o.add acc y else o.sub acc y) rest ck st'
      | .error e => .error e
    | .error e => .error e
def dCmp : Cmp α → List Str → σ → Res (Value α × σ)
  | .single t, ck, st =>
    match dTerm t ck st with
    | .ok (v, st') => .ok (normalize v, st')
    | .error e => .error e
  | .pair t op t2, ck, st =>
    match dTerm t ck st with
    | .ok (v, st') =>
      match v.oneNumber with
      | .ok a =>
        match dTerm t2 ck st' with
        | .ok (v2, st'') =>
          match v2.oneNumber with
          | .ok b => .ok (Value.num (bool o (cmpApply o op a b)), st'')
          | .error e => .error e
        | .error e => .error e
      | .error e => .error e
    | .error e => .error e
def dLogic : Logic α → List Str → σ → Res (Value α × σ)
  | .mk c rest, ck, st =>
    match dCmp c ck st with
    | .ok (v, st') => dLogTail v rest ck st'
    | .error e => .error e
def dLogTail (acc : Value α) : LogTail α → List Str → σ → Res (Value α × σ)
  | .nil, _, st => .ok (acc, st)
  | .cons op c rest, ck, st =>
    match dCmp c ck st with
    | .ok (v, st') =>
      match v.oneNumber with
      | .ok b =>
        match acc.oneNumber with
        | .ok a => dLogTail (Value.num (bool o (logApply o op a b))) rest ck st'
        | .error e => .error e
      | .error e => .error e
    | .error e => .error e
/-- a comma list is the concatenation of the (flattened) values of its items -/
def dEList : EList α → List Str → σ → Res (Value α × σ)
  | .mk e rest, ck, st =>
    match dLogic e ck st with
    | .ok (v, st') => dETail v.flatten rest ck st'
    | .error e => .error e
def dETail (out : List (Atom α)) : ETail α → List Str → σ → Res (Value α × σ)
  | .nil, _, st => .ok (.list out, st)
  | .cons e rest, ck, st =>
    match dLogic e ck st with
    | .ok (v, st') => dETail (out ++ v.flatten) rest ck st'
    | .error e => .error e
def dArgs : Args α → List Str → σ → Res (Value α × σ)
  | .none, _, st => .ok (.list [], st)
  | .some l, ck, st => dEList l ck st
end

end

/-- binding level of a token that can continue an expression: `* / %` 5, `+ -` 4, comparison 3,
    logical 2, comma 1, anything else 0 -/
def tokLevel {α : Type} : Token α → Nat
  | .mul => 5
  | .div => 5
  | .mod => 5
  | .add => 4
  | .sub => 4
  | .symbol s => if (parseCmpOp s).isSome then 3 else if (parseLogOp s).isSome then 2 else 0
  | .comma => 1
  | _ => 0

def headLevel {α : Type} : List (Token α) → Nat
  | [] => 0
  | t :: _ => tokLevel t

end Expr
end Svgdx
