/-
  Svgdx.Expr.Funcs — `ExprValue` and the 53 built-in functions of svgdx/src/functions.rs,
  generic in the number operations.  Function, comparison and logical-operator NAMES come from the
  generated tables (`Svgdx.Gen.Function.names` …), so a renamed or added function in the source changes
  the model on the next run.

  Representation invariant used: every `ExprValue::List` the implementation builds is flat (the only
  producers are `expr_list`, which extends with `flatten()`, and function results built from flattened
  arguments), so a list is modelled as a list of atoms; `flatten` is then the identity on lists.
-/
import Svgdx.Expr.Token
import Svgdx.Gen.Tables
namespace Svgdx
namespace Expr
open Str

inductive Atom (α : Type) where
  | num (x : α)
  | str (s : Str)     -- ExprValue::String
  | text (s : Str)    -- ExprValue::Text
deriving Repr

inductive Value (α : Type) where
  | one (a : Atom α)
  | list (l : List (Atom α))
deriving Repr

abbrev Res (β : Type) := Except Err β

namespace Value
variable {α : Type}

def num (x : α) : Value α := .one (.num x)

/-- `ExprValue::flatten` -/
def flatten : Value α → List (Atom α)
  | .one a => [a]
  | .list l => l

/-- `ExprValue::len` -/
def len : Value α → Nat
  | .one _ => 1
  | .list l => l.length

def atomsNumbers : List (Atom α) → Option (List α)
  | [] => some []
  | .num x :: r => (atomsNumbers r).map (x :: ·)
  | _ :: _ => none

def atomsStrings : List (Atom α) → Option (List Str)
  | [] => some []
  | .str s :: r => (atomsStrings r).map (s :: ·)
  | .text s :: r => (atomsStrings r).map (s :: ·)
  | .num _ :: _ => none

/-- `number_list` -/
def numberList (v : Value α) : Res (List α) :=
  match atomsNumbers v.flatten with
  | some l => .ok l
  | none => .error .parse

/-- `string_list` -/
def stringList (v : Value α) : Res (List Str) :=
  match atomsStrings v.flatten with
  | some l => .ok l
  | none => .error .parse

/-- `one_number` -/
def oneNumber (v : Value α) : Res α :=
  match v with
  | .one (.num x) => .ok x
  | .list [.num x] => .ok x
  | _ => .error .parse

def numberPair (v : Value α) : Res (α × α) :=
  match numberList v with
  | .ok [a, b] => .ok (a, b)
  | _ => .error .parse

def numberTriple (v : Value α) : Res (α × α × α) :=
  match numberList v with
  | .ok [a, b, c] => .ok (a, b, c)
  | _ => .error .parse

/-- `pair` -/
def pair (v : Value α) : Res (Atom α × Atom α) :=
  match v.flatten with
  | [a, b] => .ok (a, b)
  | _ => .error .parse

def oneString (v : Value α) : Res Str :=
  match stringList v with
  | .ok [a] => .ok a
  | _ => .error .parse

def stringPair (v : Value α) : Res (Str × Str) :=
  match stringList v with
  | .ok [a, b] => .ok (a, b)
  | _ => .error .parse

end Value

/-- `escape` of expression.rs (Display of `ExprValue::String`) -/
def escapeStr : Str → Str
  | [] => []
  | '\\' :: r => '\\' :: '\\' :: escapeStr r
  | '\n' :: r => '\\' :: 'n' :: escapeStr r
  | '\'' :: r => '\\' :: '\'' :: escapeStr r
  | c :: r => c :: escapeStr r

section
variable {α σ : Type} (o : Ops α σ)

/-- `Display for ExprValue` on an atom -/
def Atom.display : Atom α → Str
  | .num x => o.fstr x
  | .str s => ['\''] ++ escapeStr s ++ ['\'']
  | .text t => t

/-- `Display for ExprValue` -/
def Value.display (v : Value α) : Str :=
  match v with
  | .one a => a.display o
  | .list l => intercalate [',', ' '] (l.map (Atom.display o))

/-- raw string of an atom (`to_string_vec`) -/
def Atom.raw : Atom α → Str
  | .num x => o.fstr x
  | .str s => s
  | .text s => s

/-- `to_string_vec` -/
def Value.toStringVec (v : Value α) : List Str := v.flatten.map (Atom.raw o)

/-- derived `PartialEq` of `ExprValue` on atoms (numbers by `f32 ==`) -/
def Atom.beq : Atom α → Atom α → Bool
  | .num a, .num b => o.eq a b
  | .str a, .str b => a == b
  | .text a, .text b => a == b
  | _, _ => false

def bool (b : Bool) : α := if b then o.one else o.zero

end

/-- the `Function` enum of functions.rs -/
inductive Func where
  | Abs | Ceil | Floor | Fract | Sign | DivMod | Sqrt | Log | Exp | Pow
  | Sin | Cos | Tan | Asin | Acos | Atan | Random | RandInt
  | Min | Max | Sum | Product | Mean | Clamp | Mix
  | Equal | NotEqual | LessThan | LessThanEqual | GreaterThan | GreaterThanEqual
  | If | Not | And | Or | Xor | Swap | Rect2Polar | Polar2Rect | Select
  | Addv | Subv | Scalev | Head | Tail | Empty | Count | In
  | Split | Splitw | Trim | Join | Text
deriving DecidableEq, Repr

def Func.variants : List (Str × Func) := [
  (cs!"Abs", .Abs), (cs!"Ceil", .Ceil), (cs!"Floor", .Floor), (cs!"Fract", .Fract), (cs!"Sign", .Sign),
  (cs!"DivMod", .DivMod), (cs!"Sqrt", .Sqrt), (cs!"Log", .Log), (cs!"Exp", .Exp), (cs!"Pow", .Pow),
  (cs!"Sin", .Sin), (cs!"Cos", .Cos), (cs!"Tan", .Tan), (cs!"Asin", .Asin), (cs!"Acos", .Acos),
  (cs!"Atan", .Atan), (cs!"Random", .Random), (cs!"RandInt", .RandInt), (cs!"Min", .Min), (cs!"Max", .Max),
  (cs!"Sum", .Sum), (cs!"Product", .Product), (cs!"Mean", .Mean), (cs!"Clamp", .Clamp), (cs!"Mix", .Mix),
  (cs!"Equal", .Equal), (cs!"NotEqual", .NotEqual), (cs!"LessThan", .LessThan),
  (cs!"LessThanEqual", .LessThanEqual), (cs!"GreaterThan", .GreaterThan),
  (cs!"GreaterThanEqual", .GreaterThanEqual), (cs!"If", .If), (cs!"Not", .Not), (cs!"And", .And),
  (cs!"Or", .Or), (cs!"Xor", .Xor), (cs!"Swap", .Swap), (cs!"Rect2Polar", .Rect2Polar),
  (cs!"Polar2Rect", .Polar2Rect), (cs!"Select", .Select), (cs!"Addv", .Addv), (cs!"Subv", .Subv),
  (cs!"Scalev", .Scalev), (cs!"Head", .Head), (cs!"Tail", .Tail), (cs!"Empty", .Empty),
  (cs!"Count", .Count), (cs!"In", .In), (cs!"Split", .Split), (cs!"Splitw", .Splitw), (cs!"Trim", .Trim),
  (cs!"Join", .Join), (cs!"Text", .Text)]

/-- association-list lookup (first match), as a Rust `match` on the string -/
def assoc {β : Type} (k : Str) : List (Str × β) → Option β
  | [] => none
  | (k', v) :: r => if k == k' then some v else assoc k r

inductive FuncParse where
  | known (f : Func)
  | unknown            -- `Function::from_str` fails: ParseError
  | unmodelled         -- the generated table names a variant this model has no semantics for

/-- `Function::from_str`, through the generated name table -/
def parseFunction (name : Str) : FuncParse :=
  match assoc name Gen.Function.names with
  | none => .unknown
  | some variant =>
    match assoc variant Func.variants with
    | some f => .known f
    | none => .unmodelled

inductive CmpOp where
  | Eq | Ne | Gt | Ge | Lt | Le
deriving DecidableEq, Repr

def CmpOp.variants : List (Str × CmpOp) :=
  [(cs!"Eq", .Eq), (cs!"Ne", .Ne), (cs!"Gt", .Gt), (cs!"Ge", .Ge), (cs!"Lt", .Lt), (cs!"Le", .Le)]

/-- `ComparisonOp::from_str` -/
def parseCmpOp (s : Str) : Option CmpOp :=
  (assoc s Gen.ComparisonOp.names).bind fun v => assoc v CmpOp.variants

inductive LogOp where
  | And | Or | Xor
deriving DecidableEq, Repr

def LogOp.variants : List (Str × LogOp) := [(cs!"And", .And), (cs!"Or", .Or), (cs!"Xor", .Xor)]

/-- `LogicalOp::from_str` -/
def parseLogOp (s : Str) : Option LogOp :=
  (assoc s Gen.LogicalOp.names).bind fun v => assoc v LogOp.variants

section
variable {α σ : Type} (o : Ops α σ)

def cmpApply (op : CmpOp) (a b : α) : Bool :=
  match op with
  | .Eq => o.eq a b
  | .Ne => !o.eq a b
  | .Gt => o.lt b a
  | .Ge => o.le b a
  | .Lt => o.lt a b
  | .Le => o.le a b

def nonzero (a : α) : Bool := !o.eq a o.zero

def logApply (op : LogOp) (a b : α) : Bool :=
  match op with
  | .And => nonzero o a && nonzero o b
  | .Or => nonzero o a || nonzero o b
  | .Xor => nonzero o a != nonzero o b

/-- `Iterator::max_by(total_cmp)`: the last of the maximal elements -/
def maxBy : List α → Option α
  | [] => none
  | x :: r => some (r.foldl (fun m y => if o.totalLe m y then y else m) x)

/-- `Iterator::min_by(total_cmp)`: the first of the minimal elements -/
def minBy : List α → Option α
  | [] => none
  | x :: r => some (r.foldl (fun m y => if o.totalLe m y then m else y) x)

/-- `Iterator::sum::<f32>()`: left fold from `0.0`… Rust's float `Sum` starts from `-0.0`; the sign of a
    zero is invisible after `fstr`, and `-0.0 + x = x` for every other `x`. -/
def sumList (l : List α) : α := l.foldl o.add (o.neg o.zero)

/-- `Iterator::product::<f32>()`: left fold from `1.0` -/
def productList (l : List α) : α := l.foldl o.mul o.one

/-- Rust `str::split(&str)` with a non-empty pattern -/
def splitOnStrAux (pat : Str) : Nat → Str → Str → List Str
  | 0, _, cur => [cur.reverse]
  | _ + 1, [], cur => [cur.reverse]
  | fuel + 1, s@(c :: cs), cur =>
    match stripPrefix pat s with
    | some rest => cur.reverse :: splitOnStrAux pat fuel rest []
    | none => splitOnStrAux pat fuel cs (c :: cur)

/-- Rust `a.split(sep)`; for the empty pattern Rust yields "", each char, "" -/
def splitOnStr (pat : Str) (s : Str) : List Str :=
  if pat.isEmpty then [[]] ++ s.map (fun c => [c]) ++ [[]]
  else splitOnStrAux pat (s.length + 1) s []

def listNum (l : List α) : Value α := .list (l.map Atom.num)

/-- `eval_function`.  `args` is the value of the argument `expr_list` (always a list). -/
def evalFunction (f : Func) (args : Value α) (st : σ) : Res (Value α × σ) :=
  let ok1 (x : α) : Res (Value α × σ) := .ok (Value.num x, st)
  let un (g : α → α) : Res (Value α × σ) :=
    match args.oneNumber with
    | .ok x => ok1 (g x)
    | .error e => .error e
  let bin (g : α → α → α) : Res (Value α × σ) :=
    match args.numberPair with
    | .ok (a, b) => ok1 (g a b)
    | .error e => .error e
  match f with
  | .Swap =>
    match args.pair with
    | .ok (a, b) => .ok (.list [b, a], st)
    | .error e => .error e
  | .Rect2Polar =>
    match args.numberPair with
    | .ok (x, y) => .ok (listNum [o.hypot x y, o.toDegrees (o.atan2 y x)], st)
    | .error e => .error e
  | .Polar2Rect =>
    match args.numberPair with
    | .ok (r, theta) =>
      let t := o.toRadians theta
      .ok (listNum [o.mul r (o.cos t), o.mul r (o.sin t)], st)
    | .error e => .error e
  | .Addv =>
    match args.numberList with
    | .ok l =>
      if l.length % 2 != 0 then .error .parse
      else
        let h := l.length / 2
        .ok (listNum (List.zipWith o.add (l.take h) (l.drop h)), st)
    | .error e => .error e
  | .Subv =>
    match args.numberList with
    | .ok l =>
      if l.length % 2 != 0 then .error .parse
      else
        let h := l.length / 2
        .ok (listNum (List.zipWith o.sub (l.take h) (l.drop h)), st)
    | .error e => .error e
  | .Scalev =>
    match args.numberList with
    | .ok (s :: a :: r) => .ok (listNum ((a :: r).map (o.mul s)), st)
    | .ok _ => .error .parse
    | .error e => .error e
  | .Head =>
    match args.flatten with
    | [] => .ok (.list [], st)
    | a :: _ => .ok (.one a, st)
  | .Tail =>
    match args.flatten with
    | _ :: b :: r => .ok (.list (b :: r), st)
    | _ => .ok (.list [], st)
  | .Empty => ok1 (bool o (args.len == 0))
  | .Count => ok1 (o.ofNat args.len)
  | .Select =>
    match args.flatten with
    | a :: b :: r =>
      match (Value.one a).oneNumber with
      | .ok n =>
        match (b :: r)[o.toUsize n]? with
        | some x => .ok (.one x, st)
        | none => .error .invalidData
      | .error e => .error e
    | _ => .error .parse
  | .In =>
    match args.flatten with
    | [] => .error .parse
    | v :: r => ok1 (bool o (r.any (fun x => Atom.beq o x v)))
  | .Abs => un o.abs
  | .Ceil => un o.ceil
  | .Floor => un o.floor
  | .Fract => un (fun x => o.sub x (o.trunc x))
  | .Sign => un (fun e => if o.eq e o.zero then o.zero else o.signum e)
  | .DivMod =>
    match args.numberPair with
    | .ok (x, n) => .ok (listNum [o.divEuclid x n, o.remEuclid x n], st)
    | .error e => .error e
  | .Sqrt => un o.sqrt
  | .Log => un o.ln
  | .Exp => un o.exp
  | .Pow => bin o.pow
  | .Sin => un (fun x => o.sin (o.toRadians x))
  | .Cos => un (fun x => o.cos (o.toRadians x))
  | .Tan => un (fun x => o.tan (o.toRadians x))
  | .Asin => un (fun x => o.toDegrees (o.asin x))
  | .Acos => un (fun x => o.toDegrees (o.acos x))
  | .Atan => un (fun x => o.toDegrees (o.atan x))
  | .Random =>
    let (x, st') := o.random st
    .ok (Value.num x, st')
  | .RandInt =>
    match args.numberPair with
    | .ok (a, b) =>
      let lo := o.toI32 a
      let hi := o.toI32 b
      if lo > hi then .error .invalidData
      else
        let (x, st') := o.randint lo hi st
        .ok (Value.num x, st')
    | .error e => .error e
  | .Max =>
    match args.numberList with
    | .ok l =>
      if l.any o.isNaN then .error .nanOrder else
      match maxBy o l with
      | some x => ok1 x
      | none => .error .invalidData
    | .error e => .error e
  | .Min =>
    match args.numberList with
    | .ok l =>
      if l.any o.isNaN then .error .nanOrder else
      match minBy o l with
      | some x => ok1 x
      | none => .error .invalidData
    | .error e => .error e
  | .Sum =>
    match args.numberList with
    | .ok l => ok1 (sumList o l)
    | .error e => .error e
  | .Product =>
    match args.numberList with
    | .ok l => ok1 (productList o l)
    | .error e => .error e
  | .Mean =>
    if args.len == 0 then .error .parse
    else
      match args.numberList with
      | .ok l => ok1 (o.div (sumList o l) (o.ofNat args.len))
      | .error e => .error e
  | .Clamp =>
    match args.numberTriple with
    | .ok (x, lo, hi) =>
      if o.lt hi lo || o.isNaN lo || o.isNaN hi then .error .invalidData
      else
        -- f32::clamp: `if self < min { min } else if self > max { max } else { self }`
        ok1 (if o.lt x lo then lo else if o.lt hi x then hi else x)
    | .error e => .error e
  | .Mix =>
    match args.numberTriple with
    | .ok (a, b, c) => ok1 (o.add (o.mul a (o.sub o.one c)) (o.mul b c))
    | .error e => .error e
  | .Equal =>
    match args.pair with
    | .ok (a, b) => ok1 (bool o (Atom.beq o a b))
    | .error e => .error e
  | .NotEqual =>
    match args.pair with
    | .ok (a, b) => ok1 (bool o (!Atom.beq o a b))
    | .error e => .error e
  | .LessThan => bin (fun a b => bool o (o.lt a b))
  | .LessThanEqual => bin (fun a b => bool o (o.le a b))
  | .GreaterThan => bin (fun a b => bool o (o.lt b a))
  | .GreaterThanEqual => bin (fun a b => bool o (o.le b a))
  | .If =>
    match args.flatten with
    | [c, a, b] =>
      match (Value.one c).oneNumber with
      | .ok x => .ok (.one (if nonzero o x then a else b), st)
      | .error e => .error e
    | _ => .error .parse
  | .Not => un (fun a => bool o (o.eq a o.zero))
  | .And => bin (fun a b => bool o (logApply o .And a b))
  | .Or => bin (fun a b => bool o (logApply o .Or a b))
  | .Xor => bin (fun a b => bool o (logApply o .Xor a b))
  | .Split =>
    match args.stringPair with
    | .ok (sep, a) => .ok (.list ((splitOnStr sep a).map Atom.str), st)
    | .error e => .error e
  | .Splitw =>
    match args.oneString with
    | .ok a => .ok (.list ((splitAsciiWhitespace a).map Atom.str), st)
    | .error e => .error e
  | .Trim =>
    match args.oneString with
    | .ok a => .ok (.one (.str (trim a)), st)
    | .error e => .error e
  | .Join =>
    match args.stringList with
    | .ok (sep :: rest) => .ok (.one (.str (intercalate sep rest)), st)
    | .ok [] => .error .parse
    | .error e => .error e
  | .Text =>
    match args.oneString with
    | .ok a => .ok (.one (.text a), st)
    | .error e => .error e

end
end Expr
end Svgdx
