/-
  Svgdx.Expr.Eval — the recursive-descent evaluator of svgdx/src/expression.rs:
  `expr_list → expr = logical → comparison → term → factor → primary`, variable `lookup` with
  `checked_vars`, `eval_vars`, `eval_expr` ({{…}} scanning), `eval_attr`, `eval_condition`, `eval_list`.

  Generic in the number operations `Ops α σ`.  Every function of the descent takes fuel (one unit per
  call, as in DESIGN.md Appendix A.1); the entry points supply `fuelFor tokens`, which is always enough
  (the harness treats an `outOfFuel` answer as a failure of the model).

  The cursor of the Rust `EvalState` (`tokens`, `index`) is the remaining token list; the only use of
  `prev()` — "is the previous token `(`" in `expr_list` — is the flag `afterOpen`.
  `checked_vars` changes only inside `lookup` (push, evaluate, pop), so it is a read-only argument here.
  Variable lookup is "open": the descent takes `lk`, the function that evaluates a variable, and
  `lookupN` ties the knot with the variable-nesting depth as fuel.
-/
import Svgdx.Expr.Funcs
namespace Svgdx
namespace Expr
open Str

section
variable {α σ : Type} (o : Ops α σ)

/-- how a variable reference is evaluated: name → checked_vars → rng state → value -/
abbrev Lookup (α σ : Type) := Str → List Str → σ → Res (Value α × σ)

variable (lk : Lookup α σ) (elref : Str → Res α)

def mulApply (t : Token α) (a b : α) : α :=
  match t with
  | .mul => o.mul a b
  | .div => o.div a b
  | _ => o.remEuclid a b

mutual
/-- `primary` -/
def primary : Nat → List Str → List (Token α) → σ → Res (Value α × List (Token α) × σ)
  | 0, _, _, _ => .error .outOfFuel
  | _ + 1, _, [], _ => .error .parse
  | _ + 1, _, .number x :: ts, st => .ok (Value.num x, ts, st)
  | _ + 1, _, .string s :: ts, st => .ok (.one (.str s), ts, st)
  | _ + 1, ck, .var v :: ts, st =>
    match lk v ck st with
    | .ok (e, st') => .ok (e, ts, st')
    | .error e => .error e
  | _ + 1, _, .elref v :: ts, st =>
    match elref v with
    | .ok x => .ok (Value.num x, ts, st)
    | .error e => .error e
  | fuel + 1, ck, .openParen :: ts, st =>
    match exprList fuel ck true ts st with
    | .ok (e, .closeParen :: ts', st') => .ok (e, ts', st')
    | .ok _ => .error .parse
    | .error e => .error e
  | fuel + 1, ck, .sub :: ts, st =>
    match primary fuel ck ts st with
    | .ok (v, ts', st') =>
      match v.oneNumber with
      | .ok x => .ok (Value.num (o.neg x), ts', st')
      | .error e => .error e
    | .error e => .error e
  | fuel + 1, ck, .symbol name :: ts, st =>
    match parseFunction name with
    | .unknown => .error .parse
    | .unmodelled => .error .unmodelled
    | .known f =>
      match ts with
      | .openParen :: ts1 =>
        match exprList fuel ck true ts1 st with
        | .ok (args, ts2, st1) =>
          match evalFunction o f args st1 with
          | .ok (e, st2) =>
            match ts2 with
            | .closeParen :: ts3 => .ok (e, ts3, st2)
            | _ => .error .parse
          | .error e => .error e
        | .error e => .error e
      | _ => .error .parse
  | _ + 1, _, _ :: _, _ => .error .parse

/-- the `* / %` loop of `factor` -/
def factorLoop : Nat → List Str → α → List (Token α) → σ → Res (α × List (Token α) × σ)
  | 0, _, _, _, _ => .error .outOfFuel
  | fuel + 1, ck, acc, .mul :: ts, st =>
    match primary fuel ck ts st with
    | .ok (v, ts', st') =>
      match v.oneNumber with
      | .ok y => factorLoop fuel ck (o.mul acc y) ts' st'
      | .error e => .error e
    | .error e => .error e
  | fuel + 1, ck, acc, .div :: ts, st =>
    match primary fuel ck ts st with
    | .ok (v, ts', st') =>
      match v.oneNumber with
      | .ok y => factorLoop fuel ck (o.div acc y) ts' st'
      | .error e => .error e
    | .error e => .error e
  | fuel + 1, ck, acc, .mod :: ts, st =>
    match primary fuel ck ts st with
    | .ok (v, ts', st') =>
      match v.oneNumber with
      | .ok y => factorLoop fuel ck (o.remEuclid acc y) ts' st'
      | .error e => .error e
    | .error e => .error e
  | _ + 1, _, acc, ts, st => .ok (acc, ts, st)

/-- `factor` -/
def factor : Nat → List Str → List (Token α) → σ → Res (Value α × List (Token α) × σ)
  | 0, _, _, _ => .error .outOfFuel
  | fuel + 1, ck, ts, st =>
    match primary fuel ck ts st with
    | .ok (v, ts', st') =>
      match v.oneNumber with
      | .ok x =>
        match factorLoop fuel ck x ts' st' with
        | .ok (y, ts'', st'') => .ok (Value.num y, ts'', st'')
        | .error e => .error e
      | .error _ => .ok (v, ts', st')
    | .error e => .error e

/-- the `+ -` loop of `term` -/
def termLoop : Nat → List Str → α → List (Token α) → σ → Res (α × List (Token α) × σ)
  | 0, _, _, _, _ => .error .outOfFuel
  | fuel + 1, ck, acc, .add :: ts, st =>
    match factor fuel ck ts st with
    | .ok (v, ts', st') =>
      match v.oneNumber with
      | .ok y => termLoop fuel ck (o.add acc y) ts' st'
      | .error e => .error e
    | .error e => .error e
  | fuel + 1, ck, acc, .sub :: ts, st =>
    match factor fuel ck ts st with
    | .ok (v, ts', st') =>
      match v.oneNumber with
      | .ok y => termLoop fuel ck (o.sub acc y) ts' st'
      | .error e => .error e
    | .error e => .error e
  | _ + 1, _, acc, ts, st => .ok (acc, ts, st)

/-- `term` -/
def term : Nat → List Str → List (Token α) → σ → Res (Value α × List (Token α) × σ)
  | 0, _, _, _ => .error .outOfFuel
  | fuel + 1, ck, ts, st =>
    match factor fuel ck ts st with
    | .ok (v, ts', st') =>
      match v.oneNumber with
      | .ok x =>
        match termLoop fuel ck x ts' st' with
        | .ok (y, ts'', st'') => .ok (Value.num y, ts'', st'')
        | .error e => .error e
      | .error _ => .ok (v, ts', st')
    | .error e => .error e

/-- `comparison`: at most one comparison operator per operand pair -/
def comparison : Nat → List Str → List (Token α) → σ → Res (Value α × List (Token α) × σ)
  | 0, _, _, _ => .error .outOfFuel
  | fuel + 1, ck, ts, st =>
    match term fuel ck ts st with
    | .ok (v, ts', st') =>
      match v.oneNumber with
      | .ok first =>
        match ts' with
        | .symbol s :: ts1 =>
          match parseCmpOp s with
          | some op =>
            match term fuel ck ts1 st' with
            | .ok (v2, ts2, st2) =>
              match v2.oneNumber with
              | .ok second => .ok (Value.num (bool o (cmpApply o op first second)), ts2, st2)
              | .error e => .error e
            | .error e => .error e
          | none => .ok (Value.num first, ts', st')
        | _ => .ok (Value.num first, ts', st')
      | .error _ => .ok (v, ts', st')
    | .error e => .error e

/-- the `and / or / xor` loop of `logical` (one precedence level, left to right, no short circuit) -/
def logicalLoop : Nat → List Str → Value α → List (Token α) → σ → Res (Value α × List (Token α) × σ)
  | 0, _, _, _, _ => .error .outOfFuel
  | fuel + 1, ck, e, .symbol s :: ts, st =>
    match parseLogOp s with
    | some op =>
      match comparison fuel ck ts st with
      | .ok (v, ts', st') =>
        match v.oneNumber with
        | .ok other =>
          match e.oneNumber with
          | .ok x => logicalLoop fuel ck (Value.num (bool o (logApply o op x other))) ts' st'
          | .error er => .error er
        | .error er => .error er
      | .error er => .error er
    | none => .ok (e, .symbol s :: ts, st)
  | _ + 1, _, e, ts, st => .ok (e, ts, st)

/-- `logical` (= `expr`) -/
def logical : Nat → List Str → List (Token α) → σ → Res (Value α × List (Token α) × σ)
  | 0, _, _, _ => .error .outOfFuel
  | fuel + 1, ck, ts, st =>
    match comparison fuel ck ts st with
    | .ok (v, ts', st') => logicalLoop fuel ck v ts' st'
    | .error e => .error e

/-- the comma loop of `expr_list`; `out` is the flattened list so far -/
def exprListLoop : Nat → List Str → List (Atom α) → List (Token α) → σ →
    Res (Value α × List (Token α) × σ)
  | 0, _, _, _, _ => .error .outOfFuel
  | fuel + 1, ck, out, ts, st =>
    match logical fuel ck ts st with
    | .ok (v, .comma :: ts', st') => exprListLoop fuel ck (out ++ v.flatten) ts' st'
    | .ok (v, ts', st') => .ok (.list (out ++ v.flatten), ts', st')
    | .error e => .error e

/-- `expr_list`; `afterOpen` = "the previous token is `(`" -/
def exprList : Nat → List Str → Bool → List (Token α) → σ → Res (Value α × List (Token α) × σ)
  | 0, _, _, _, _ => .error .outOfFuel
  | _ + 1, _, true, .closeParen :: ts, st => .ok (.list [], .closeParen :: ts, st)
  | fuel + 1, ck, _, ts, st => exprListLoop fuel ck [] ts st
end

/-- fuel that is always enough for a token list: every call of the descent either consumes a token or
    goes one level down, and there are at most 10 levels between two consumed tokens -/
def fuelFor (ts : List (Token α)) : Nat := 16 * ts.length + 16

/-- `MAX_EXPR_DEPTH` -/
def maxExprDepth : Nat := 100

/-- one step of `nesting_depth`; the state is `(groups, open, run, depth)` -/
def nestingStep (s : List Nat × Nat × Nat × Nat) (t : Token α) : List Nat × Nat × Nat × Nat :=
  let (groups, open_, run, depth) := s
  let (groups, open_, run) : List Nat × Nat × Nat :=
    match t with
    | .sub => (groups, open_, run + 1)
    | .openParen => ((run + 1) :: groups, open_ + (run + 1), 0)
    | .closeParen => (groups.tail, open_ - groups.headD 0, 0)
    | .number _ | .string _ | .var _ | .elref _ => (groups, open_, 0)
    | _ => (groups, open_, run)
  (groups, open_, run, Nat.max depth (open_ + run))

/-- `nesting_depth`: an upper bound, from the tokens alone, on how deeply the descent nests — every `(`
    stays open up to its `)`, together with the minus signs directly in front of it, and a run of minus
    signs stays open up to the operand which follows it -/
def nestingDepth (ts : List (Token α)) : Nat := (ts.foldl nestingStep ([], 0, 0, 0)).2.2.2

/-- `evaluate_inner`: the whole token list must be consumed -/
def evaluate (ck : List Str) (ts : List (Token α)) (st : σ) : Res (Value α × σ) :=
  match exprList o lk elref (fuelFor ts) ck false ts st with
  | .ok (e, [], st') => .ok (e, st')
  | .ok _ => .error .parse
  | .error e => .error e

end

section
variable {α σ : Type} (o : Ops α σ)

/-- variables of the context: innermost first (`get_var` walks the scope stack from the top) -/
abbrev Env := List (Str × Str)

/-- `EvalState::nested` + `evaluate_inner`: tokens evaluated at nesting depth `base` (zero, or that of
    the expression containing the variable they are the value of). The depth the tokens themselves
    reach is added before anything is parsed; past `MAX_EXPR_DEPTH` that is an error, otherwise the
    variables met on the way are looked up one level further down. -/
def evaluateAt (lkB : Nat → Lookup α σ) (elref : Str → Res α) (base : Nat) (ck : List Str)
    (ts : List (Token α)) (st : σ) : Res (Value α × σ) :=
  if base + nestingDepth ts > maxExprDepth then .error .depthLimit
  else evaluate o (lkB (base + nestingDepth ts + 1)) elref ck ts st

/-- `EvalState::lookup`, `n` = remaining variable-nesting depth (fuel), `base` = the nesting depth at
    which the variable stands -/
def lookupN (env : Env) (elref : Str → Res α) : Nat → Nat → Lookup α σ
  | 0, _, _, _, _ => .error .outOfFuel
  | n + 1, base, v, ck, st =>
    if ck.contains v then .error .circular
    else
      match assoc v env with
      | none => .error .parse
      | some inner =>
        match tokenize o inner with
        | .error e => .error e
        | .ok [] => .ok (.list [], st)
        | .ok ts => evaluateAt o (lookupN env elref n) elref base (v :: ck) ts st

/-- a chain of nested lookups visits distinct variables, so `env.length + 1` levels always suffice -/
def lookup (env : Env) (elref : Str → Res α) : Nat → Lookup α σ := lookupN o env elref (env.length + 1)

/-- `eval_str` -/
def evalStr (env : Env) (elref : Str → Res α) (value : Str) (st : σ) : Res (Str × σ) :=
  match tokenize o value with
  | .error e => .error e
  | .ok ts =>
    match evaluateAt o (lookup o env elref) elref 0 [] ts st with
    | .ok (v, st') => .ok (v.display o, st')
    | .error e => .error e

/-- Rust `char::is_alphanumeric` on the ASCII range (non-ASCII input is outside the modelled domain) -/
def isVarChar (c : Char) : Bool := isAsciiAlnum c || c == '_'

/-- `eval_vars` -/
def evalVarsAux (env : Env) : Nat → Str → Str
  | 0, value => value
  | fuel + 1, value =>
    match breakOn (· == VAR_PREFIX) value with
    | (_, none) => value
    | (pre, some (_, remain)) =>
      match pre with
      | '\\' :: escPre =>
        -- the text before the `$` STARTS with a backslash: drop it, keep the `$`
        escPre ++ [VAR_PREFIX] ++ evalVarsAux env fuel remain
      | _ =>
        match remain with
        | '{' :: inner =>
          match breakOn (· == END_BRACE) inner with
          | (name, some (_, after)) =>
            let rep := match assoc name env with
              | some v => v
              | none => ['$', '{'] ++ name ++ ['}']
            pre ++ rep ++ evalVarsAux env fuel after
          | (_, none) => pre ++ ['$', '{'] ++ inner
        | _ =>
          match breakOn (fun c => !isVarChar c) remain with
          | (name, some (c, after)) =>
            let rep := match assoc name env with
              | some v => v
              | none => VAR_PREFIX :: name
            pre ++ rep ++ evalVarsAux env fuel (c :: after)
          | (name, none) =>
            pre ++ (match assoc name env with
              | some v => v
              | none => VAR_PREFIX :: name)

def evalVars (env : Env) (value : Str) : Str := evalVarsAux env (value.length + 1) value

/-- `eval_expr`: expand every `{{…}}` -/
def evalExprAux (env : Env) (elref : Str → Res α) : Nat → Str → σ → Res (Str × σ)
  | 0, value, st => .ok (value, st)
  | fuel + 1, value, st =>
    match splitOnSub ['{', '{'] value with
    | none => .ok (value, st)
    | some (pre, rest) =>
      match splitOnSub ['}', '}'] rest with
      | none => .ok (pre ++ rest, st)
      | some (inner, after) =>
        match evalStr o env elref inner st with
        | .error e => .error e
        | .ok (s, st') =>
          match evalExprAux env elref fuel after st' with
          | .ok (r, st'') => .ok (pre ++ s ++ r, st'')
          | .error e => .error e

def evalExpr (env : Env) (elref : Str → Res α) (value : Str) (st : σ) : Res (Str × σ) :=
  evalExprAux o env elref (value.length + 1) value st

/-- `eval_attr` -/
def evalAttr (env : Env) (elref : Str → Res α) (value : Str) (st : σ) : Res (Str × σ) :=
  evalExpr o env elref (evalVars env value) st

/-- strip an optional surrounding `{{ … }}` (`eval_condition`, `eval_list`) -/
def stripExprBraces (value : Str) : Res Str :=
  match stripPrefix ['{', '{'] value with
  | some inner =>
    match stripSuffix ['}', '}'] inner with
    | some v => .ok v
    | none => .error .parse
  | none => .ok value

/-- `eval_condition` -/
def evalCondition (env : Env) (elref : Str → Res α) (value : Str) (st : σ) : Res (Bool × σ) :=
  match stripExprBraces value with
  | .error e => .error e
  | .ok v =>
    match evalStr o env elref v st with
    | .error e => .error e
    | .ok (s, st') =>
      match o.parse s with
      | some x => .ok (nonzero o x, st')
      | none => .error .parse

/-- `eval_list` -/
def evalList (env : Env) (elref : Str → Res α) (value : Str) (st : σ) : Res (List Str × σ) :=
  match stripExprBraces value with
  | .error e => .error e
  | .ok v =>
    match tokenize o v with
    | .error e => .error e
    | .ok ts =>
      match evaluateAt o (lookup o env elref) elref 0 [] ts st with
      | .ok (r, st') => .ok (r.toStringVec o, st')
      | .error e => .error e

end
end Expr
end Svgdx
