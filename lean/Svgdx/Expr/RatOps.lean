/-
  Svgdx.Expr.RatOps — the exact-rational instance of the number operations (the instance theorems
  about arithmetic are stated over).  `+ − * /`, comparisons, `floor ceil trunc abs signum`,
  `rem_euclid`, `div_euclid` are the exact operations; the transcendental functions, `sqrt` and the
  constant π are parameters (`Libm`), as is the random source.
-/
import Svgdx.Expr.Eval
import Svgdx.Base.Rq
namespace Svgdx
namespace Expr

/-- the functions of the C math library (and π) that have no exact rational counterpart -/
structure Libm (α : Type) where
  pi : α
  sqrt : α → α
  ln : α → α
  exp : α → α
  pow : α → α → α
  sin : α → α
  cos : α → α
  tan : α → α
  asin : α → α
  acos : α → α
  atan : α → α
  atan2 : α → α → α
  hypot : α → α → α

def ratTrunc (x : Rat) : Rat := if x < 0 then (x.ceil : Rat) else (x.floor : Rat)

/-- Rust `a % b` on floats (C `fmod`): the remainder with the sign of `a` -/
def ratRem (a b : Rat) : Rat := a - b * ratTrunc (a / b)

/-- Rust `f32::rem_euclid`: `let r = a % b; if r < 0 { r + b.abs() } else { r }` -/
def ratRemEuclid (a b : Rat) : Rat :=
  let r := ratRem a b
  if r < 0 then r + Rq.abs b else r

/-- Rust `f32::div_euclid` -/
def ratDivEuclid (a b : Rat) : Rat :=
  let q := ratTrunc (a / b)
  if ratRem a b < 0 then (if 0 < b then q - 1 else q + 1) else q

def ratOps {σ : Type} (m : Libm Rat) (rnd : σ → Rat × σ) (rint : Int → Int → σ → Rat × σ) :
    Ops Rat σ where
  parse := fun s => match Num.parseF32 s with
    | .num q => some q
    | _ => none
  fstr := Num.fstr
  zero := 0
  one := 1
  add := (· + ·)
  sub := (· - ·)
  mul := (· * ·)
  div := (· / ·)
  remEuclid := ratRemEuclid
  divEuclid := ratDivEuclid
  neg := fun x => -x
  lt := fun a b => a < b
  le := fun a b => a ≤ b
  eq := fun a b => a == b
  totalLe := fun a b => a ≤ b
  isNaN := fun _ => false
  floor := Rq.floor
  ceil := Rq.ceil
  trunc := ratTrunc
  abs := Rq.abs
  signum := fun x => if x < 0 then -1 else 1
  sqrt := m.sqrt
  ln := m.ln
  exp := m.exp
  pow := m.pow
  sin := m.sin
  cos := m.cos
  tan := m.tan
  asin := m.asin
  acos := m.acos
  atan := m.atan
  atan2 := m.atan2
  hypot := m.hypot
  toRadians := fun x => x * (m.pi / 180)
  toDegrees := fun x => x * (180 / m.pi)
  toUsize := fun x => x.floor.toNat
  toI32 := fun x => (ratTrunc x).floor
  ofNat := fun n => (n : Rat)
  random := rnd
  randint := rint

end Expr
end Svgdx
