/-
  Svgdx.Base.Str — `List Char` helpers mirroring the Rust `str` API that svgdx uses.
  Model files are core-only (no Mathlib, no Std) so that the driver links as a lean_exe.
-/
namespace Svgdx

abbrev Str := List Char

-- `cs!"abc"` is the explicit list `['a','b','c']` (string literals do not reduce in the kernel).
open Lean in
macro:max "cs!" s:str : term => do
  let chars := s.getString.toList
  let elems ← chars.mapM fun c => `($(Syntax.mkCharLit c))
  `(([$elems.toArray,*] : List Char))

namespace Str

/-- Rust `char::is_whitespace` (Unicode White_Space). -/
def isWs (c : Char) : Bool :=
  let n := c.toNat
  (9 ≤ n && n ≤ 13) || n == 0x20 || n == 0x85 || n == 0xA0 || n == 0x1680 ||
  (0x2000 ≤ n && n ≤ 0x200A) || n == 0x2028 || n == 0x2029 || n == 0x202F ||
  n == 0x205F || n == 0x3000

/-- Rust `char::is_ascii_whitespace` (space, \t, \n, \x0C, \r). -/
def isAsciiWs (c : Char) : Bool :=
  c == ' ' || c == '\t' || c == '\n' || c == '\x0c' || c == '\r'

def isDigit (c : Char) : Bool := '0' ≤ c && c ≤ '9'
def isAsciiAlpha (c : Char) : Bool := ('a' ≤ c && c ≤ 'z') || ('A' ≤ c && c ≤ 'Z')
def isAsciiAlnum (c : Char) : Bool := isAsciiAlpha c || isDigit c

def trimStart (s : Str) : Str := s.dropWhile isWs
def trimEnd (s : Str) : Str := (s.reverse.dropWhile isWs).reverse
def trim (s : Str) : Str := trimEnd (trimStart s)

/-- `s.strip_prefix(p)` -/
def stripPrefix (p s : Str) : Option Str :=
  match p, s with
  | [], s => some s
  | _ :: _, [] => none
  | a :: p', b :: s' => if a == b then stripPrefix p' s' else none

def startsWith (p s : Str) : Bool := (stripPrefix p s).isSome

/-- `s.strip_suffix(p)` -/
def stripSuffix (p s : Str) : Option Str :=
  (stripPrefix p.reverse s.reverse).map List.reverse

/-- split at the first char satisfying `f`: `(before, some (c, after))`. -/
def breakOn (f : Char → Bool) : Str → Str × Option (Char × Str)
  | [] => ([], none)
  | c :: cs =>
    if f c then ([], some (c, cs))
    else
      let (a, r) := breakOn f cs
      (c :: a, r)

/-- Rust `split(pred)`: always at least one piece. -/
def splitBy (f : Char → Bool) (s : Str) : List Str :=
  go s []
where
  go : Str → Str → List Str
  | [], cur => [cur.reverse]
  | c :: cs, cur => if f c then cur.reverse :: go cs [] else go cs (c :: cur)

/-- Rust `split_whitespace`: non-empty maximal runs of non-whitespace. -/
def splitWhitespace (s : Str) : List Str := (splitBy isWs s).filter (· ≠ [])

/-- Rust `split_ascii_whitespace`. -/
def splitAsciiWhitespace (s : Str) : List Str := (splitBy isAsciiWs s).filter (· ≠ [])

/-- svgdx `attr_split`: whitespace-or-comma separated, empty pieces dropped. -/
def attrSplit (s : Str) : List Str :=
  ((splitWhitespace s).flatMap (splitBy (· == ','))).filter (· ≠ [])

/-- `s.split_once(c)` -/
def splitOnce (c : Char) (s : Str) : Option (Str × Str) :=
  match breakOn (· == c) s with
  | (a, some (_, b)) => some (a, b)
  | (_, none) => none

/-- first index of substring `pat` in `s` -/
def findSub (pat : Str) : Str → Option Nat
  | [] => if pat.isEmpty then some 0 else none
  | s@(_ :: cs) => if startsWith pat s then some 0 else (findSub pat cs).map (· + 1)

/-- split at first occurrence of `pat`: (before, after-pat) -/
def splitOnSub (pat : Str) (s : Str) : Option (Str × Str) :=
  (findSub pat s).map fun i => (s.take i, s.drop (i + pat.length))

def intercalate (sep : Str) : List Str → Str
  | [] => []
  | [x] => x
  | x :: xs => x ++ sep ++ intercalate sep xs

def natToStr (n : Nat) : Str := (toString n).toList

def intToStr (i : Int) : Str :=
  if i < 0 then '-' :: natToStr i.natAbs else natToStr i.toNat

end Str
end Svgdx
