/-
  Svgdx.Base.NumSpec — the SVG 1.1 `number` production as an abstract syntax tree, independent of the
  scanners of `Svgdx.Base.Num`:

      number ::= sign? (digit+ ('.' digit*)? | '.' digit+) (('e' | 'E') sign? digit+)?

  (this is the `number` of the path-data / points / transform-list grammars of SVG 1.1, i.e. with the
  `digit-sequence "."` form "1." included). `SvgNumber.render` is the concrete spelling,
  `SvgNumber.denote` the value read off the digits positionally (it does not mention `strp`), and
  `SvgNumber.wf` says that the digit strings are digit strings and that the mandatory ones are not empty.
  Every legal spelling of a number is `render n` for exactly one well-formed `n`.

  Lists of numbers: `NumItem` pairs a number with the separator written after it; `renderItems` is the
  spelling of a list, `sepLegal` the side condition under which the grammar lets two numbers follow each
  other with that separator (in particular: with no separator at all).

  Proofs about these definitions are in Svgdx/Proofs/NumSpec.lean.
-/
import Svgdx.Base.Num
namespace Svgdx
open Str

namespace NumSpec

/-- the optional sign of a number or of an exponent -/
inductive Sign where
  | absent
  | plus
  | minus
deriving Repr, DecidableEq, Inhabited

def Sign.render : Sign → Str
  | .absent => []
  | .plus => ['+']
  | .minus => ['-']

def Sign.neg : Sign → Bool
  | .minus => true
  | _ => false

/-- `('e' | 'E') sign? digit+` -/
structure SvgExp where
  /-- written `E` rather than `e` -/
  upper : Bool := false
  sign : Sign := .absent
  digits : Str
deriving Repr, DecidableEq, Inhabited

def SvgExp.letter (e : SvgExp) : Char := if e.upper then 'E' else 'e'

def SvgExp.render (e : SvgExp) : Str := e.letter :: (e.sign.render ++ e.digits)

/-- `sign? (digit+ ('.' digit*)? | '.' digit+) exponent?` -/
structure SvgNumber where
  sign : Sign := .absent
  /-- the digits before the decimal point (may be empty if there are digits after it) -/
  int : Str
  /-- `none`: no decimal point; `some ds`: a decimal point followed by the digits `ds` (which may be
      empty if there are digits before the point) -/
  frac : Option Str := none
  exp : Option SvgExp := none
deriving Repr, DecidableEq, Inhabited

def allDigits (ds : Str) : Bool := ds.all isDigit

namespace SvgNumber

/-- the digits after the decimal point -/
def fracDigits (n : SvgNumber) : Str := n.frac.getD []

def fracRender (n : SvgNumber) : Str :=
  match n.frac with
  | none => []
  | some ds => '.' :: ds

def expRender (n : SvgNumber) : Str :=
  match n.exp with
  | none => []
  | some e => e.render

/-- the concrete spelling -/
def render (n : SvgNumber) : Str := n.sign.render ++ (n.int ++ (n.fracRender ++ n.expRender))

/-- well-formed: digit strings are made of digits, the mantissa has at least one digit, an exponent has
    at least one digit -/
def wf (n : SvgNumber) : Bool :=
  allDigits n.int && allDigits n.fracDigits && (!n.int.isEmpty || !n.fracDigits.isEmpty) &&
  (match n.exp with
   | none => true
   | some e => allDigits e.digits && !e.digits.isEmpty)

end SvgNumber

/-- the value of a decimal digit -/
def digitValue (c : Char) : Nat := c.toNat - 48

/-- positional value of a digit string: the first digit weighs `10 ^ (number of digits after it)` -/
def decimal : Str → Nat
  | [] => 0
  | d :: ds => digitValue d * 10 ^ ds.length + decimal ds

namespace SvgNumber

/-- integer part plus fractional part, the latter scaled by its number of digits -/
def mantissa (n : SvgNumber) : Rat :=
  (decimal n.int : Rat) + (decimal n.fracDigits : Rat) / ((10 ^ n.fracDigits.length : Nat) : Rat)

/-- the value written: `± mantissa · 10 ^ ± exponent` -/
def denote (n : SvgNumber) : Rat :=
  let m := n.mantissa
  let v :=
    match n.exp with
    | none => m
    | some e =>
      if e.sign.neg then m / ((10 ^ decimal e.digits : Nat) : Rat)
      else m * ((10 ^ decimal e.digits : Nat) : Rat)
  if n.sign.neg then -v else v

/-- `rest` would be read as a continuation of the spelling of `n` by a greedy reader of the grammar:
    a digit always extends the last digit string; an `e` / `E` starts an exponent if there is none yet;
    a `.` starts a fractional part if there is neither a `.` nor an exponent yet. -/
def continuedBy (n : SvgNumber) (rest : Str) : Bool :=
  match rest with
  | [] => false
  | c :: _ =>
    isDigit c || (n.exp.isNone && (c == 'e' || c == 'E')) ||
    (n.exp.isNone && n.frac.isNone && c == '.')

/-- the spelling starts with a sign -/
def startsWithSign (n : SvgNumber) : Bool := n.sign != .absent

/-- the spelling starts with the decimal point -/
def startsWithPoint (n : SvgNumber) : Bool := n.sign == .absent && n.int.isEmpty

/-- the spelling contains a decimal point or an exponent (so that a following `.` starts a new number) -/
def hasPointOrExp (n : SvgNumber) : Bool := n.frac.isSome || n.exp.isSome

end SvgNumber

/-! ### lists of numbers -/

/-- a number and the separator written after it -/
abbrev NumItem := SvgNumber × Str

/-- a run (possibly empty) of whitespace and commas. The SVG grammar's `comma-wsp`
    (`wsp+ ','? wsp* | ',' wsp*`) is the special case with at most one comma. -/
def isSepRun (s : Str) : Bool := s.all Num.isNumSep

/-- the separator `sep` may be written between `prev` and `next`: it is a run of whitespace / commas, and
    it may be EMPTY only where the grammar ends `prev` before the first character of `next`, i.e. when
    `next` starts with a sign, or starts with `.` and `prev` already has a `.` or an exponent -/
def sepLegal (prev next : SvgNumber) (sep : Str) : Bool :=
  isSepRun sep &&
  (!sep.isEmpty || next.startsWithSign || (next.startsWithPoint && prev.hasPointOrExp))

/-- numbers each followed by their separator -/
def renderItems : List NumItem → Str
  | [] => []
  | (n, sep) :: r => n.render ++ (sep ++ renderItems r)

/-- all numbers well-formed, every separator legal before the number that follows it, the last separator
    (trailing whitespace / commas) any separator run -/
def itemsLegal : List NumItem → Bool
  | [] => true
  | [(n, sep)] => n.wf && isSepRun sep
  | (n, sep) :: (n', sep') :: r => n.wf && sepLegal n n' sep && itemsLegal ((n', sep') :: r)

end NumSpec
end Svgdx
