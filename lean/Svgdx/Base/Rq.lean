/-
  Svgdx.Base.Rq — the `f32` operations used by the geometry core, over exact `Rat`.
-/
namespace Svgdx
namespace Rq

def min (a b : Rat) : Rat := if b < a then b else a
def max (a b : Rat) : Rat := if a < b then b else a
def abs (a : Rat) : Rat := if a < 0 then -a else a
def floor (a : Rat) : Rat := (a.floor : Rat)
def ceil (a : Rat) : Rat := (a.ceil : Rat)

/-- Rust `Option::or` -/
def optOr {α : Type} (a b : Option α) : Option α :=
  match a with
  | some x => some x
  | none => b

end Rq
end Svgdx
