/-
  Svgdx.Base.Pcg — the random source of svgdx expressions:
  `rand_pcg 0.9 Pcg32` (= Lcg64Xsh32), seeded with `rand_core 0.9 SeedableRng::seed_from_u64`,
  `random::<f32>()` (rand 0.9 `StandardUniform`) and `random_range(lo..=hi)` for `i32`
  (rand 0.9 `UniformInt::<i32>::sample_single_inclusive`, default "biased" variant: one draw, plus one
  more when the low word of the widening product is in the biased zone).

  The state carries two observable counters: `draws` (32-bit words taken from the generator — what the
  `verif_hooks` probe measures) and `calls` (`random()` / `randint()` invocations).
-/
namespace Svgdx
namespace Pcg

def MUL : UInt64 := 6364136223846793005
def SEED_INC : UInt64 := 11634580027462260723

structure Rng where
  state : UInt64
  inc : UInt64
  draws : Nat := 0
  calls : Nat := 0
deriving Repr

def rotr32 (x : UInt32) (r : UInt32) : UInt32 :=
  let r := r % 32
  if r == 0 then x else (x >>> r) ||| (x <<< (32 - r))

/-- PCG XSH-RR output function on a 64-bit state -/
def output (state : UInt64) : UInt32 :=
  let rot := (state >>> 59).toUInt32
  let xsh := (((state >>> 18) ^^^ state) >>> 27).toUInt32
  rotr32 xsh rot

/-- `Lcg64Xsh32::from_state_incr` -/
def fromStateIncr (state inc : UInt64) : Rng :=
  let s := state + inc
  { state := s * MUL + inc, inc := inc }

/-- `rand_core::SeedableRng::seed_from_u64` for a 16-byte seed read as two little-endian u64 -/
def seedFromU64 (seed : UInt64) : Rng :=
  let s1 := seed * MUL + SEED_INC
  let w0 := output s1
  let s2 := s1 * MUL + SEED_INC
  let w1 := output s2
  let s3 := s2 * MUL + SEED_INC
  let w2 := output s3
  let s4 := s3 * MUL + SEED_INC
  let w3 := output s4
  let lo : UInt64 := w0.toUInt64 ||| (w1.toUInt64 <<< 32)
  let hi : UInt64 := w2.toUInt64 ||| (w3.toUInt64 <<< 32)
  fromStateIncr lo (hi ||| 1)

/-- `next_u32` -/
def nextU32 (r : Rng) : UInt32 × Rng :=
  (output r.state, { r with state := r.state * MUL + r.inc, draws := r.draws + 1 })

/-- the 24-bit numerator `k` of `random::<f32>()` = k · 2⁻²⁴ (exact in f32) -/
def randomF32Num (r : Rng) : Nat × Rng :=
  let (v, r') := nextU32 r
  ((v >>> 8).toNat, { r' with calls := r'.calls + 1 })

/-- `rng.random_range(lo..=hi)` for `i32`, `lo ≤ hi` (both already saturated to the i32 range) -/
def randomRangeI32 (lo hi : Int) (r : Rng) : Int × Rng :=
  let two32 : Nat := 4294967296
  let range : Nat := ((hi - lo + 1) % (two32 : Int)).toNat   -- wrapping, as u32
  let wrap (x : Int) : Int :=   -- wrapping_add back into i32
    let y := x % (two32 : Int)
    if y ≥ 2147483648 then y - two32 else y
  if range == 0 then
    let (v, r') := nextU32 r
    (wrap v.toNat, { r' with calls := r'.calls + 1 })
  else
    let (v, r1) := nextU32 r
    let tmp := v.toNat * range
    let hiW := tmp / two32
    let loW := tmp % two32
    if loW > two32 - range then
      let (v2, r2) := nextU32 r1
      let newHi := (v2.toNat * range) / two32
      let res := if loW + newHi ≥ two32 then hiW + 1 else hiW
      (wrap (lo + res), { r2 with calls := r2.calls + 1 })
    else
      (wrap (lo + hiW), { r1 with calls := r1.calls + 1 })

end Pcg
end Svgdx
