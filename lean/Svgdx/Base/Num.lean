/-
  Svgdx.Base.Num — numbers as the code carries them: decimal strings parsed with `strp`
  (Rust `str::trim` + `f32::from_str`) and printed with `fstr` (svgdx/src/types.rs).
  The model computes in exact `Rat`; see DESIGN.md §3.2 (exactness grid).
-/
import Svgdx.Base.Str
namespace Svgdx
open Str

namespace Num

def digitVal (c : Char) : Nat := c.toNat - '0'.toNat

def digitsToNat (ds : Str) : Nat := ds.foldl (fun acc c => acc * 10 + digitVal c) 0

def pow10 (n : Nat) : Rat := ((10 ^ n : Nat) : Rat)

/-- Result of Rust's `f32::from_str` on an (already trimmed) string, with the value exact. -/
inductive Parsed where
  | num (q : Rat)
  | nonfinite
  | err
deriving Repr

def lower (c : Char) : Char := if 'A' ≤ c && c ≤ 'Z' then Char.ofNat (c.toNat + 32) else c

/-- exponent part: `(e|E)[+-]?digit+` up to end of input -/
def parseExp (s : Str) : Option Int :=
  match s with
  | [] => some 0
  | c :: rest =>
    if c == 'e' || c == 'E' then
      let (neg, ds) :=
        match rest with
        | '-' :: ds => (true, ds)
        | '+' :: ds => (false, ds)
        | ds => (false, ds)
      if ds.isEmpty || !ds.all isDigit then none
      else
        let v : Int := (digitsToNat ds : Int)
        some (if neg then -v else v)
    else none

/-- Rust `f32::from_str` grammar (no trimming). -/
def parseF32 (s : Str) : Parsed :=
  let (neg, body) :=
    match s with
    | '-' :: r => (true, r)
    | '+' :: r => (false, r)
    | r => (false, r)
  if body.isEmpty then .err
  else
    let lw := body.map lower
    if lw == cs!"inf" || lw == cs!"infinity" || lw == cs!"nan" then .nonfinite
    else
      let ip := body.takeWhile isDigit
      let r1 := body.dropWhile isDigit
      let (fp, r2) :=
        match r1 with
        | '.' :: r => (r.takeWhile isDigit, r.dropWhile isDigit)
        | r => ([], r)
      if ip.isEmpty && fp.isEmpty then .err
      else
        match parseExp r2 with
        | none => .err
        | some e =>
          let mant : Rat := ((digitsToNat (ip ++ fp) : Nat) : Rat) / pow10 fp.length
          let v : Rat := if e ≥ 0 then mant * pow10 e.toNat else mant / pow10 (-e).toNat
          .num (if neg then -v else v)

/-- svgdx `strp`: `s.trim().parse::<f32>()`; non-finite results are outside the modelled domain. -/
def strp (s : Str) : Option Rat :=
  match parseF32 (trim s) with
  | .num q => some q
  | _ => none

def takeSign (s : Str) : Str × Str :=
  match s with
  | '+' :: r => (['+'], r)
  | '-' :: r => (['-'], r)
  | r => ([], r)

def takeDigits (s : Str) : Str × Str := (s.takeWhile isDigit, s.dropWhile isDigit)

def takeFrac (s : Str) : Str × Str :=
  match s with
  | '.' :: r => ('.' :: r.takeWhile isDigit, r.dropWhile isDigit)
  | r => ([], r)

def takeExp (s : Str) : Str × Str :=
  match s with
  | c :: r =>
    if c == 'e' || c == 'E' then
      (c :: ((takeSign r).1 ++ (takeSign r).2.takeWhile isDigit), (takeSign r).2.dropWhile isDigit)
    else ([], s)
  | [] => ([], [])

/-- the longest prefix of `s` that the SVG number grammar
    `sign? (digit+ ('.' digit*)? | '.' digit+) (('e'|'E') sign? digit+)?` can be read from, as the code
    reads it (greedily, one character of decision at a time), and the rest -/
def scanNumber (s : Str) : Str × Str :=
  let a := takeSign s
  let b := takeDigits a.2
  let c := takeFrac b.2
  let d := takeExp c.2
  (a.1 ++ b.1 ++ c.1 ++ d.1, d.2)

def isNumSep (c : Char) : Bool := isWs c || c == ','

/-- `svg_number_list`: numbers separated by whitespace / commas or by the end of the number grammar -/
def svgNumberList : Nat → Str → Option (List Rat)
  | 0, _ => none
  | fuel + 1, s =>
    let s := s.dropWhile isNumSep
    if s.isEmpty then some []
    else
      let (tok, rest) := scanNumber s
      -- not the start of a number: the whole remainder is handed to `strp` (which rejects it)
      let (tok, rest) := if tok.isEmpty then (s, ([] : Str)) else (tok, rest)
      match strp tok with
      | none => none
      | some q => (svgNumberList fuel rest).map (q :: ·)

def strpIsNonfinite (s : Str) : Bool :=
  match parseF32 (trim s) with
  | .nonfinite => true
  | _ => false

def ratAbs (q : Rat) : Rat := if q < 0 then -q else q

/-- round-half-even of a non-negative rational to a natural -/
def roundHalfEven (q : Rat) : Nat :=
  let fl := q.floor.toNat
  let frac := q - (fl : Rat)
  let half : Rat := (1 : Rat) / 2
  if frac < half then fl
  else if frac > half then fl + 1
  else if fl % 2 == 0 then fl else fl + 1

def padLeft (n : Nat) (c : Char) (s : Str) : Str := List.replicate (n - s.length) c ++ s

/-- Rust `format!("{x:.3}")` on the exact value. -/
def fmt3 (x : Rat) : Str :=
  let neg := x < 0
  let m := roundHalfEven (ratAbs x * 1000)
  let ip := natToStr (m / 1000)
  let fp := padLeft 3 '0' (natToStr (m % 1000))
  (if neg then ['-'] else []) ++ ip ++ ['.'] ++ fp

def trimEndMatches (c : Char) (s : Str) : Str := (s.reverse.dropWhile (· == c)).reverse

def isInt (x : Rat) : Bool := x.den == 1

/-- the `0.0001` of `fstr` as the f32 it is compared in: 13743895 · 2⁻³⁷ = 0.0000999999974737875…
    (`x.abs() < 0.0001` on f32; the f32 nearest to -0.0001 is therefore NOT below it and is written
    "-0") -/
def fstrZeroBelow : Rat := (13743895 : Rat) / 137438953472

/-- svgdx `fstr` (types.rs) on the exact value. Integer fast path assumes |x| < 2^31. -/
def fstr (x : Rat) : Str :=
  if ratAbs x < fstrZeroBelow then ['0']
  else if isInt x then intToStr x.num
  else trimEndMatches '.' (trimEndMatches '0' (fmt3 x))

/-- `fstr` loses nothing: the exactness monitor of DESIGN §3.2 -/
def fstrExact (x : Rat) : Bool := x == 0 || (ratAbs x ≥ (1 : Rat) / 10000 && isInt (x * 1000))

/-- Rust's `Display` for a finite f32/f64 holding exactly `x`, for the grid values we allow
    (finite decimal expansion): shortest repr = exact decimal, no exponent in the range used. -/
def displayExact (x : Rat) : Option Str :=
  -- find smallest k ≤ 12 with x*10^k integral
  let rec go (k : Nat) (fuel : Nat) : Option Nat :=
    match fuel with
    | 0 => none
    | fuel + 1 => if isInt (x * pow10 k) then some k else go (k + 1) fuel
  match go 0 13 with
  | none => none
  | some 0 => some (intToStr x.num)
  | some k =>
    let m := (ratAbs x * pow10 k).num.toNat
    let ip := natToStr (m / 10 ^ k)
    let fp := padLeft k '0' (natToStr (m % 10 ^ k))
    some ((if x < 0 then ['-'] else []) ++ ip ++ ['.'] ++ fp)

end Num
end Svgdx
