/-
  Svgdx.Ctl.Defaults — the `<defaults>` mechanism of context.rs: `ElementMatch` (what a default applies
  to), the element stored by `set_element_default`, and `apply_defaults` over the list of defaults in force
  (all scopes from the outermost inwards, each in insertion order). The order of operations is the one
  of the Rust code, because `AttrMap` order shows in the output.
-/
import Svgdx.Geom.Attrs
namespace Svgdx
open Str

namespace Ctl

/-- `ElementMatch` -/
structure ElementMatch where
  /-- `None` for the element name `_` (any element) -/
  element : Option Str := none
  /-- the patterns of the `match` attribute: `name`, `.class`, `name.class` -/
  pats : List Str := []
  isInit : Bool := false
  isFinal : Bool := false
deriving Repr, Inhabited, DecidableEq

/-- `impl From<&SvgElement> for ElementMatch`: the `match` attribute is split by `attr_split`; the words
    `init` / `final` are flags, everything else a pattern -/
def ElementMatch.ofElem (e : Elem) : ElementMatch :=
  let toks := match e.getAttr cs!"match" with
    | some m => attrSplit m
    | none => []
  { element := if e.name == ['_'] then none else some e.name,
    pats := toks.filter (fun m => !(m == cs!"final" || m == cs!"init")),
    isInit := toks.contains cs!"init",
    isFinal := toks.contains cs!"final" }

/-- one pattern: split at the first `.`; an empty element part matches any element -/
def ElementMatch.patMatches (el : Elem) (m : Str) : Bool :=
  match splitOnce '.' m with
  | some (elem, cls) => (elem.isEmpty || elem == el.name) && el.hasClass cls
  | none => m == el.name

/-- `ElementMatch::matches` -/
def ElementMatch.matchesElem (d : ElementMatch) (el : Elem) : Bool :=
  (match d.element with
   | some n => el.name == n
   | none => true) &&
  (d.pats.isEmpty || d.pats.any (ElementMatch.patMatches el))

/-- the element `set_element_default` stores: `id` and `match` are not defaults (`pop_attr` of each; an `AttrMap`
    holds a key at most once, so this removes every entry with the key - `storedDefault_eq_pop` in
    Svgdx/Proofs/DefaultsApply.lean is the equation with `popAttr` for such maps) -/
def storedDefault (e : Elem) : Elem :=
  { e with attrs := e.attrs.filter (fun kv => !(kv.1 == cs!"id" || kv.1 == cs!"match")) }

/-- what `set_element_default` pushes -/
def defaultEntry (e : Elem) : ElementMatch × Elem := (ElementMatch.ofElem e, storedDefault e)

/-- the accumulators of `apply_defaults` -/
structure DefAcc where
  classes : List Str := []
  attrs : Attrs := []
  styles : List Str := []
  textStyles : List Str := []
  transforms : List Str := []
  /-- a `final` match has been met (`break 'outer`) -/
  done : Bool := false
deriving Repr, Inhabited, DecidableEq

/-- `AttrMap::update` -/
def attrsUpdate (a b : Attrs) : Attrs := b.foldl (fun acc kv => Attrs.insert acc kv.1 kv.2) a

/-- `ClassList::extend` -/
def classesExtend (a b : List Str) : List Str := b.foldl classInsert a

/-- the body of the two nested loops of `apply_defaults` for one stored default: style / text-style /
    transform are popped off (a copy of) the default and collected, in this order; `init` replaces the
    accumulated classes and attributes, otherwise they are extended / updated; `final` ends the walk -/
def applyOne (el : Elem) (acc : DefAcc) (d : ElementMatch × Elem) : DefAcc :=
  if acc.done || !d.1.matchesElem el then acc
  else
    let p1 := d.2.popAttr cs!"style"
    let p2 := p1.1.popAttr cs!"text-style"
    let p3 := p2.1.popAttr cs!"transform"
    let de := p3.1
    { classes := if d.1.isInit then de.classes else classesExtend acc.classes de.classes,
      attrs := if d.1.isInit then de.attrs else attrsUpdate acc.attrs de.attrs,
      styles := acc.styles ++ p1.2.toList,
      textStyles := acc.textStyles ++ p2.2.toList,
      transforms := acc.transforms ++ p3.2.toList,
      done := d.1.isFinal }

/-- the tail of `apply_defaults` for one augmented attribute: the collected values, the element's own
    value last, joined and written with `set_attr` -/
def augment (el : Elem) (k : Str) (vals : List Str) (sep : Str) : Elem :=
  if vals.isEmpty then el
  else
    let p := el.popAttr k
    p.1.setAttr k (intercalate sep (vals ++ p.2.toList))

/-- the walk over all defaults in force -/
def collectDefaults (defs : List (ElementMatch × Elem)) (el : Elem) : DefAcc := defs.foldl (applyOne el) {}

/-- what `apply_defaults` does with the accumulated values -/
def finishDefaults (acc : DefAcc) (el : Elem) : Elem :=
  let el := acc.attrs.foldl (fun (e : Elem) kv => e.setDefaultAttr kv.1 kv.2) el
  let el := { el with classes := classesExtend el.classes acc.classes }
  let el := augment el cs!"style" acc.styles cs!"; "
  let el := augment el cs!"text-style" acc.textStyles cs!"; "
  augment el cs!"transform" acc.transforms [' ']

/-- `apply_defaults` given the defaults in force, outermost scope first -/
def applyDefaultList (defs : List (ElementMatch × Elem)) (el : Elem) : Elem :=
  finishDefaults (collectDefaults defs el) el

end Ctl
end Svgdx
