/-
  Svgdx.Ctl.SimpleEval — `eval_vars` ($name / ${name} substitution, expression.rs) and a minimal
  evaluator instance for the control skeleton: attribute values with variable references but without
  `{{…}}` arithmetic; conditions that are plain numbers. (The full expression model is Svgdx.Expr.)
-/
import Svgdx.Ctl.Gen
namespace Svgdx
open Str Num

namespace Ctl

def isVarChar (c : Char) : Bool := isAsciiAlnum c || c == '_'

/-- `eval_vars`: missing variables are left verbatim -/
def evalVars (lookup : Str → Option Str) (value : Str) : Str :=
  go value.length value
where
  go : Nat → Str → Str
  | 0, v => v
  | fuel + 1, v =>
    match breakOn (· == '$') v with
    | (pre, none) => pre
    | (pre, some (_, remain)) =>
      match pre with
      | '\\' :: esc => esc ++ ['$'] ++ go fuel remain
      | _ =>
        match remain with
        | '{' :: inner =>
          match breakOn (· == '}') inner with
          | (name, some (_, rest)) =>
            (match lookup name with
             | some val => pre ++ val
             | none => pre ++ cs!"${" ++ name ++ ['}']) ++ go fuel rest
          | (_, none) => pre ++ cs!"${" ++ inner
        | _ =>
          let name := remain.takeWhile isVarChar
          let rest := remain.dropWhile isVarChar
          (match lookup name with
           | some val => pre ++ val
           | none => pre ++ ['$'] ++ name) ++ (if rest.isEmpty then [] else go fuel rest)

/-- interim evaluator: substitution only; `{{` is outside its domain -/
def simpleEvalr : Evalr Nat where
  evalAttr := fun _ env rng v =>
    let s := evalVars (Attrs.lookupTable env) v
    if (findSub cs!"{{" s).isSome then .error .other else .ok (s, rng)
  evalCondition := fun _ env rng v =>
    match strp (evalVars (Attrs.lookupTable env) v) with
    | some q => .ok (q != 0, rng)
    | none => .error .other
  evalList := fun _ _ rng v =>
    -- numeric literals separated by commas (the full grammar is Svgdx.Expr's business)
    let items := (splitBy (· == ',') v).map trim
    if v.isEmpty then .error .parse
    else
      match allSome (items.map strp) with
      | some qs => .ok (qs.map fstr, rng)
      | none => .error .other

/-- tokens of the driver protocol → document tree, following `tagify_events`: character data after an
    element or comment becomes its tail -/
inductive Tok where
  | start (e : Elem) | leaf (e : Elem) | end_ | text (t : Str) | comment (c : Str) | cdata (c : Str)

def setTail (n : Node) (t : Str) : Node :=
  match n with
  | .elem e k _ => .elem e k (some t)
  | .comment c _ => .comment c (some t)
  | other => other

def appendNode (acc : List Node) (n : Node) : List Node := acc ++ [n]

def addText (acc : List Node) (t : Str) (mk : Str → Node) : List Node :=
  match acc.reverse with
  | last :: revRest => (setTail last t :: revRest).reverse
  | [] => [mk t]

/-- parse a token list; the stack holds (open element, siblings collected so far at the outer level) -/
def buildTree : Nat → List Tok → List Node → List (Elem × List Node) → List Node
  | 0, _, acc, _ => acc
  | _ + 1, [], acc, [] => acc
  | fuel + 1, [], acc, (e, outer) :: stack =>
    -- unclosed element: treated as empty (no event range)
    buildTree fuel [] (appendNode outer (.elem e none none) ++ acc) stack
  | fuel + 1, tk :: rest, acc, stack =>
    match tk with
    | .start e => buildTree fuel rest [] ((e, acc) :: stack)
    | .leaf e => buildTree fuel rest (appendNode acc (.elem e none none)) stack
    | .end_ =>
      match stack with
      | (e, outer) :: stack' => buildTree fuel rest (appendNode outer (.elem e (some (Nodes.ofList acc)) none)) stack'
      | [] => buildTree fuel rest acc []
    | .text t => buildTree fuel rest (addText acc t Node.text) stack
    | .comment c => buildTree fuel rest (appendNode acc (.comment c none)) stack
    | .cdata c => buildTree fuel rest (addText acc c Node.cdata) stack

def parseDoc (toks : List Tok) : Nodes := Nodes.ofList (buildTree (2 * toks.length + 2) toks [] [])

end Ctl
end Svgdx
