/-
  Svgdx.Ctl.Gen — the control skeleton of transform.rs / context.rs / loop_el.rs / reuse.rs:
  tags, the retry loop of `process_tags`, `generate_events` with its depth counter, and the element
  kinds var / if / loop / for / g / symbol / reuse / specs / config / defaults / container / other.

  The document is a tree (`Node`), equivalent to the flat event list with matched start/end indices
  for well-formed input. Expression evaluation is a parameter (`Evalr`), so every theorem about
  this skeleton holds for any evaluator; the driver instantiates it with the model of
  expression.rs. All recursion takes fuel (reuse re-enters the tree through the element table).
-/
import Svgdx.Geom.Connector
import Svgdx.Geom.Text
import Svgdx.Ctl.Defaults
namespace Svgdx
open Str Num Gen

namespace Ctl

inductive Ev where
  | start (e : Elem)
  | empty (e : Elem)
  | end_ (name : Str)
  | text (t : Str)
  | comment (t : Str)
  | cdata (t : Str)
deriving Repr, Inhabited

mutual
inductive Node where
  /-- an element: `kids = none` for an empty-element tag, `some` for start … end -/
  | elem (e : Elem) (kids : Option Nodes) (tail : Option Str)
  | comment (c : Str) (tail : Option Str)
  | text (t : Str)
  | cdata (t : Str)
inductive Nodes where
  | nil
  | cons (n : Node) (rest : Nodes)
end

def Nodes.toList : Nodes → List Node
  | .nil => []
  | .cons n r => n :: r.toList

def Nodes.ofList : List Node → Nodes
  | [] => .nil
  | n :: r => .cons n (Nodes.ofList r)

/-- extra error kinds of the control layer -/
inductive CErr where
  | geom (e : Err)
  | depthLimit (depth limit : Nat)
  | loopLimit (count limit : Nat)
  | varLimit (name : Str) (len limit : Nat)
  | multi (lines : List Nat)
  | document
  | fuel
  | unsupported
deriving Repr, DecidableEq, Inhabited

def CErr.name : CErr → String
  | .geom e => e.name
  | .depthLimit .. => "DepthLimitExceeded"
  | .loopLimit .. => "LoopLimitError"
  | .varLimit .. => "VarLimitError"
  | .multi _ => "MultiError"
  | .document => "DocumentError"
  | .fuel => "OutOfFuel"
  | .unsupported => "Unsupported"

def CErr.isLimit : CErr → Bool
  | .depthLimit .. | .loopLimit .. | .varLimit .. => true
  | .geom .exprDepth => true   -- the same error kind, raised inside an expression
  | _ => false

structure Cfg where
  loopLimit : Nat := 1000
  varLimit : Nat := 1024
  depthLimit : Nat := 100
  addMetadata : Bool := false
deriving Repr, Inhabited

structure Scope where
  vars : List (Str × Str) := []
  /-- `defaults`: what the `<defaults>` elements met in this scope have stored, in insertion order -/
  defaults : List (ElementMatch × Elem) := []
deriving Repr, Inhabited

/-- expression evaluation as the skeleton sees it; `ρ` is the RNG state threaded through -/
structure Evalr (ρ : Type) where
  /- `Ctx` serves element references inside expressions (`#id~w`); the list is the variable environment: all scopes flattened, innermost first
     (`St.env`; first match wins, so it denotes the same lookup as `getVar`) -/
  evalAttr : Ctx → List (Str × Str) → ρ → Str → Except Err (Str × ρ)
  evalCondition : Ctx → List (Str × Str) → ρ → Str → Except Err (Bool × ρ)
  evalList : Ctx → List (Str × Str) → ρ → Str → Except Err (List Str × ρ)

structure St (ρ : Type) where
  geo : Ctx := {}
  originals : List (Str × Elem × Option Nodes) := []
  scopes : List Scope := []
  elemStack : List Elem := []
  depth : Nat := 0
  inSpecs : Bool := false
  cfg : Cfg := {}
  rng : ρ
  /-- set when a construct outside the modelled domain was met -/
  outside : Bool := false
  /-- document-wide count of passes over pending tags that completed none of them -/
  idlePasses : Nat := 0
  /-- `generation`: counts the changes to what the evaluation of an element can depend on (an element
      registered or registered again in a different form, a variable given a different value, the
      configuration set, the first previous-element); the retry loop attempts a failed tag again only
      if this has moved on since the tag failed -/
  gen : Nat := 0

variable {ρ : Type}

/-- `get_var`: innermost scope first -/
def getVar (scopes : List Scope) (name : Str) : Option Str :=
  match scopes with
  | [] => none
  | s :: rest =>
    match Attrs.lookupTable s.vars name with
    | some v => some v
    | none => getVar rest name

def St.lookup (st : St ρ) : Str → Option Str := getVar st.scopes

/-- the environment handed to the expression evaluator -/
def St.env (st : St ρ) : List (Str × Str) := st.scopes.flatMap (·.vars)

def setVarIn (vars : List (Str × Str)) (k v : Str) : List (Str × Str) :=
  (k, v) :: vars.filter (fun kv => kv.1 != k)

/-- `set_var`: into the innermost scope (created if the stack is empty) -/
def St.setVar (st : St ρ) (k v : Str) : St ρ :=
  match st.scopes with
  | [] => { st with scopes := [{ vars := [(k, v)] }], gen := st.gen + 1 }
  | s :: rest =>
    { st with scopes := { s with vars := setVarIn s.vars k v } :: rest,
              gen := if Attrs.lookupTable s.vars k == some v then st.gen else st.gen + 1 }

/-- `push_element`: the element's (unevaluated) attributes become a new innermost scope (with no defaults) -/
def St.pushElement (st : St ρ) (e : Elem) : St ρ :=
  { st with elemStack := e :: st.elemStack, scopes := { vars := e.attrs, defaults := [] } :: st.scopes }

def St.popElement (st : St ρ) : St ρ :=
  { st with elemStack := st.elemStack.drop 1, scopes := st.scopes.drop 1 }

/-- the defaults in force, in the order `apply_defaults` walks them: outermost scope first, each scope in
    insertion order -/
def defaultsInForce (scopes : List Scope) : List (ElementMatch × Elem) := scopes.reverse.flatMap (·.defaults)

/-- `apply_defaults` -/
def applyDefaults (st : St ρ) (e : Elem) : Elem := applyDefaultList (defaultsInForce st.scopes) e

/-- `set_element_default`: into the innermost scope (created if the stack is empty); always counts as a change -/
def St.setElementDefault (st : St ρ) (e : Elem) : St ρ :=
  match st.scopes with
  | [] => { st with scopes := [{ vars := [], defaults := [defaultEntry e] }], gen := st.gen + 1 }
  | s :: rest =>
    { st with scopes := { s with defaults := s.defaults ++ [defaultEntry e] } :: rest, gen := st.gen + 1 }

abbrev Res := Except CErr (List Ev × Option BoundingBox)

def liftE {α : Type} (r : Except Err α) : Except CErr α :=
  match r with
  | .ok a => .ok a
  | .error e => .error (.geom e)

/-- `eval_attributes`: every attribute except `__`, then the classes -/
def evalAttributes (ev : Evalr ρ) (st : St ρ) (e : Elem) : Except Err (Elem × ρ) := do
  let (e1, rng) ← e.attrs.foldlM
    (fun (acc : Elem × ρ) (kv : Str × Str) =>
      if kv.1 == cs!"__" then pure acc
      else do
        let (v, r) ← ev.evalAttr st.geo st.env acc.2 kv.2
        pure (acc.1.setAttr kv.1 v, r))
    (e, st.rng)
  let (cls, rng) ← e1.classes.foldlM
    (fun (acc : List Str × ρ) (c : Str) => do
      let (v, r) ← ev.evalAttr st.geo st.env acc.2 c
      -- `ClassList::replace`: remove, then insert each whitespace-separated piece at the end
      let removed := (classRemove acc.1 c).1
      pure ((splitWhitespace v).foldl classInsert removed, r))
    (e1.classes, rng)
  pure ({ e1 with classes := cls }, rng)

/-- `update_element`: register under the evaluated id; the first form seen of an id is its original -/
def updateElement (ev : Evalr ρ) (st : St ρ) (e : Elem) : St ρ :=
  match e.getAttr cs!"id" with
  | none => st
  | some i =>
    let i := match ev.evalAttr st.geo st.env st.rng i with
      | .ok (v, _) => v
      | .error _ => i
    let known := (Attrs.lookupTable st.originals i).isSome
    let same := decide (Attrs.lookupTable st.geo.elems i = some e)
    { st with geo := { st.geo with elems := (i, e) :: st.geo.elems.filter (fun kv => kv.1 != i) },
              originals := if known then st.originals else (i, e, none) :: st.originals,
              gen := st.gen + (if same then 0 else 1) + (if known then 0 else 1) }

/-- `register_original`: the as-written form becomes the reuse template; the element is NOT made
    available to geometry references (those only ever see resolved elements) -/
def registerOriginal (ev : Evalr ρ) (st : St ρ) (e : Elem) (kids : Option Nodes) : St ρ :=
  match e.getAttr cs!"id" with
  | none => st
  | some i =>
    let i := match ev.evalAttr st.geo st.env st.rng i with
      | .ok (v, _) => v
      | .error _ => i
    let known := (Attrs.lookupTable st.originals i).isSome
    { st with originals := if known then st.originals else (i, e, kids) :: st.originals,
              gen := if known then st.gen else st.gen + 1 }

/-- `set_prev_element` (which element is the previous one is not something a failed element waits
    for; that there is one, is: only the first assignment counts as a change) -/
def setPrev (st : St ρ) (e : Elem) : St ρ :=
  { st with geo := { st.geo with prev := some e }, gen := if st.geo.prev.isSome then st.gen else st.gen + 1 }

-- flatten a subtree back to raw events (pass-through of real SVG and of text-only containers)
mutual
def rawNode : Node → List Ev
  | .elem e none tail => [Ev.empty e] ++ (match tail with | some t => [Ev.text t] | none => [])
  | .elem e (some kids) tail =>
    [Ev.start e] ++ rawNodes kids ++ [Ev.end_ e.name] ++ (match tail with | some t => [Ev.text t] | none => [])
  | .comment c tail => [Ev.comment c] ++ (match tail with | some t => [Ev.text t] | none => [])
  | .text t => [Ev.text t]
  | .cdata t => [Ev.cdata t]
def rawNodes : Nodes → List Ev
  | .nil => []
  | .cons n r => rawNode n ++ rawNodes r
end

-- every start / empty element event of a subtree, in document order (`inner_events` filtered by `try_from`)
mutual
def subElemsNode : Node → List Elem
  | .elem e none _ => [e]
  | .elem e (some kids) _ => e :: subElemsNodes kids
  | .comment _ _ => []
  | .text _ => []
  | .cdata _ => []
def subElemsNodes : Nodes → List Elem
  | .nil => []
  | .cons n r => subElemsNode n ++ subElemsNodes r
end

/-- `DefaultsElement`: nothing is rendered; every element inside, at any nesting level, becomes a default -/
def genDefaults (st : St ρ) (kids : Option Nodes) : St ρ × Res :=
  (match kids with
   | some ks => (subElemsNodes ks).foldl St.setElementDefault st
   | none => st,
   .ok ([], none))

def svgNs : Str := cs!"http://www.w3.org/2000/svg"

/-- `is_real_svg`: the first element is `<svg xmlns="http://www.w3.org/2000/svg">` -/
def isRealSvg : List Node → Bool
  | [] => false
  | .elem e _ _ :: _ => e.name == cs!"svg" && e.hasAttr cs!"xmlns"
  | _ :: rest => isRealSvg rest

/-- only character data inside: `(all text/cdata, the text the code picks)` -/
def innerText (kids : List Node) : Option Str :=
  let rec go : List Node → Option Str → Option (Option Str)
    | [], acc => some acc
    | .text t :: r, acc => go r (match acc with | none => some t | some a => some a)
    | .cdata c :: r, _ => go r (some c)
    | _ :: _, _ => none
  match go kids none with
  | some (some t) => some t
  | _ => none

def isGraphics (name : Str) : Bool := Gen.Element.graphicsElements.contains name

/-- the output form of an element event: attributes minus the internal ones, classes, metadata -/
def adapt (e : Elem) : Elem :=
  let base := Elem.new e.name []
  let e1 := e.attrs.foldl
    (fun (acc : Elem) (kv : Str × Str) =>
      if kv.1 == cs!"class" || kv.1 == cs!"data-src-line" || kv.1 == ['_'] || kv.1 == cs!"__" then acc
      else acc.setAttr kv.1 kv.2)
    base
  { e1 with classes := e.classes.foldl classInsert e1.classes }

/-- `ConfigElement`: the keys that matter to the skeleton; others are accepted and ignored here -/
def applyConfig (cfg : Cfg) (e : Elem) : Except CErr Cfg :=
  e.attrs.foldlM
    (fun (c : Cfg) (kv : Str × Str) =>
      let nat := fun (v : Str) => if v.all isDigit && !v.isEmpty then some (digitsToNat v) else none
      match Attrs.lookupTable Gen.ConfigElement.keys kv.1 with
      | none => .error (.geom .invalidData)
      | some field =>
        if field == cs!"loop_limit" then
          (match nat kv.2 with | some n => .ok { c with loopLimit := n } | none => .error (.geom .parse))
        else if field == cs!"var_limit" then
          (match nat kv.2 with | some n => .ok { c with varLimit := n } | none => .error (.geom .parse))
        else if field == cs!"depth_limit" then
          (match nat kv.2 with | some n => .ok { c with depthLimit := n } | none => .error (.geom .parse))
        else .ok c)
    cfg

/-- one tag of `process_tags` -/
structure Tag where
  idx : Nat
  node : Node
  /-- `generation` right after this tag's latest failed attempt -/
  failGen : Option Nat := none

def tagElem : Node → Option Elem
  | .elem e _ _ => some e
  | _ => none

/-- exact decimal rendering of the (f64) loop variable on the grid -/
def loopVarStr (q : Rat) : Str := (displayExact q).getD ['?']

/-- sequencing with early exit on error; the state at the point of failure is kept -/
def seq {α β : Type} (x : St ρ × Except CErr α) (f : St ρ → α → St ρ × Except CErr β) : St ρ × Except CErr β :=
  match x.2 with
  | .error e => (x.1, .error e)
  | .ok a => f x.1 a

/-- run an evaluator step: on success the RNG state advances -/
def withRng {α : Type} (st : St ρ) (r : Except Err (α × ρ)) : St ρ × Except CErr α :=
  match r with
  | .ok (a, rng) => ({ st with rng := rng }, .ok a)
  | .error er => (st, .error (.geom er))

def unionOpt (a b : Option BoundingBox) : Option BoundingBox :=
  match a, b with
  | some x, some y => some (x.combine y)
  | none, some y => some y
  | x, none => x

/-- containers whose content is referenced from elsewhere, not rendered in place -/
def notRenderedInPlace (name : Str) : Bool :=
  name == cs!"clipPath" || name == cs!"marker" || name == cs!"mask" || name == cs!"pattern" ||
  name == cs!"linearGradient" || name == cs!"radialGradient" || name == cs!"filter"

/-- registration at the end of `Container`: the content box is recorded on the element (unless defs /
    symbol); a clipPath / mask / ... is registered even without a box (a `url(#id)` naming it is then
    satisfied, with no effect on the extent); only a box that also counts for the parent makes the
    element the "previous" one -/
def finishContainer (ev : Evalr ρ) (st : St ρ) (ne : Elem) (bb : Option BoundingBox) : St ρ :=
  let st := if bb.isSome || notRenderedInPlace ne.name then updateElement ev st { ne with contentBBox := bb } else st
  if bb.isSome && !notRenderedInPlace ne.name then setPrev st { ne with contentBBox := bb } else st

/-- `VarElement`: all right-hand sides are evaluated in the pre-state, then assigned together -/
def genVar (ev : Evalr ρ) (st : St ρ) (e : Elem) : St ρ × Res :=
  let r := e.attrs.foldlM
    (fun (acc : List (Str × Str) × ρ) (kv : Str × Str) =>
      if kv.1 == ['_'] || kv.1 == cs!"__" then (pure acc : Except CErr _)
      else
        match ev.evalAttr st.geo st.env acc.2 kv.2 with
        | .error er => .error (.geom er)
        | .ok (v, rng) =>
          if (String.ofList v).utf8ByteSize > st.cfg.varLimit then
            .error (.varLimit kv.1 (String.ofList v).utf8ByteSize st.cfg.varLimit)
          else pure (acc.1 ++ [(kv.1, v)], rng))
    ([], st.rng)
  match r with
  | .error er => (st, .error er)
  | .ok (newVars, rng) =>
    (newVars.foldl (fun s kv => s.setVar kv.1 kv.2) { st with rng := rng }, .ok ([], none))

/-- the attribute pipeline of `OtherElement` -/
def otherPipeline (ev : Evalr ρ) (st : St ρ) (e : Elem) : Except Err (Elem × ρ) := do
  let (e1, rng) ← evalAttributes ev st e
  let e2 ← e1.resolvePosition st.geo
  let e3 ← Conn.transmuteConnector st.geo e2
  let e4 ← e3.transmuteDxDy
  let (e5, rng) ← evalAttributes ev { st with rng := rng } e4
  let e6 ← e5.resolvePosition st.geo
  pure (e6, rng)

/-- the evaluated `_` comment of `element_events` -/
def commentEvents (ev : Evalr ρ) (st : St ρ) (e : Elem) : St ρ × Except CErr (List Ev) :=
  match e.getAttr ['_'] with
  | some c =>
    match ev.evalAttr st.geo st.env st.rng c with
    | .ok (v, rng) => ({ st with rng := rng }, .ok [Ev.comment ([' '] ++ v ++ [' ']), Ev.text ['\n']])
    | .error er => (st, .error (.geom er))
  | none => (st, .ok [])

/-- the raw `__` comment, the shape and its generated text (no state involved) -/
def shapeEvents (e : Elem) : Except CErr (List Ev) :=
  let indent : Ev := Ev.text ['\n']
  let evs2 := match e.getAttr cs!"__" with
    | some c => [Ev.comment ([' '] ++ c ++ [' ']), indent]
    | none => []
  let phantom := e.name == cs!"point" || e.name == cs!"box"
  if e.hasAttr cs!"text" then
    match Text.processTextAttr e with
    | .error er => .error (.geom er)
    | .ok (orig, tes) =>
      let shapeEvs := if orig.name != cs!"text" && !phantom then [Ev.empty (adapt orig), indent] else []
      let textEvs := match tes with
        | [] => []
        | [t] => [Ev.start (adapt t.el), Ev.text t.content, Ev.end_ cs!"text"]
        | t :: spans =>
          [Ev.start (adapt t.el), indent] ++
            spans.flatMap (fun sp => [Ev.start (adapt sp.el), Ev.text sp.content, Ev.end_ cs!"tspan"]) ++
            [indent, Ev.end_ cs!"text"]
      .ok (evs2 ++ shapeEvs ++ textEvs)
  else .ok (evs2 ++ (if phantom then [] else [Ev.empty (adapt e)]))

/-- `element_events` without debug mode -/
def elementEvents (ev : Evalr ρ) (st : St ρ) (e : Elem) : St ρ × Except CErr (List Ev) :=
  seq (commentEvents ev st e) fun st evs1 =>
    (st, (shapeEvents e).map (evs1 ++ ·))

/-- `OtherElement`: the one-element pipeline, registration, events -/
def genOther (ev : Evalr ρ) (st : St ρ) (e : Elem) : St ρ × Res :=
  seq (withRng st (otherPipeline ev st e)) fun st e' =>
    let st := updateElement ev st e'
    match st.geo.bb e' with
    | .error er => (st, .error (.geom er))
    | .ok bb =>
      seq (elementEvents ev (if bb.isSome then setPrev st e' else st) e') fun st evs =>
        (st, .ok (evs, if e'.name == cs!"point" then none else bb))

/-- head of `LoopElement`: count, loop-var, start, step — evaluated in this order -/
def loopHead (ev : Evalr ρ) (st : St ρ) (e : Elem) : Except CErr (Option Nat × Str × Rat × Rat × ρ) := do
  let (cnt, rng) ← (match e.getAttr cs!"count" with
    | some c =>
      match ev.evalAttr st.geo st.env st.rng c with
      | .error er => .error (.geom er)
      | .ok (v, rng) =>
        if v.all isDigit && !v.isEmpty then .ok (some (digitsToNat v), rng) else .error (.geom .parse)
    | none => .ok (none, st.rng))
  match e.getAttr cs!"loop-var" with
  | none => pure (cnt, [], 0, 1, rng)
  | some lv =>
    match ev.evalAttr st.geo st.env rng lv with
    | .error er => .error (.geom er)
    | .ok (name, rng) =>
      match ev.evalAttr st.geo st.env rng ((e.getAttr cs!"start").getD ['0']) with
      | .error er => .error (.geom er)
      | .ok (sv, rng) =>
        match ev.evalAttr st.geo st.env rng ((e.getAttr cs!"step").getD ['1']) with
        | .error er => .error (.geom er)
        | .ok (pv, rng) =>
          match strp sv, strp pv with
          | some s, some p => pure (cnt, name, s, p, rng)
          | _, _ => .error (.geom .parse)

/-- the test before each pass: count not reached / `while` condition non-zero -/
def preTest (ev : Evalr ρ) (st : St ρ) (cnt : Option Nat) (whileE : Option Str) (iteration : Nat) :
    St ρ × Except CErr Bool :=
  match cnt, whileE with
  | some c, _ => (st, .ok (decide (iteration < c)))
  | none, some w => withRng st (ev.evalCondition st.geo st.env st.rng w)
  | none, none => (st, .ok true)

/-- the test after each pass: `until` condition non-zero -/
def postTest (ev : Evalr ρ) (st : St ρ) (untilE : Option Str) : St ρ × Except CErr Bool :=
  match untilE with
  | some u => withRng st (ev.evalCondition st.geo st.env st.rng u)
  | none => (st, .ok false)

def bindLoopVar (st : St ρ) (name : Str) (value : Rat) : St ρ :=
  if name.isEmpty then st else st.setVar name (loopVarStr value)

def bindForVars (st : St ρ) (v : Str) (iv : Option Str) (item : Str) (idx : Nat) : St ρ :=
  let st := st.setVar v item
  match iv with
  | some i => st.setVar i (natToStr idx)
  | none => st

def withTail (tail : Option Str) (evs : List Ev) : List Ev :=
  match tail, evs with
  | some t, _ :: _ => evs ++ [Ev.text t]
  | _, _ => evs

def tailEvs (tail : Option Str) : List Ev :=
  match tail with
  | some t => [Ev.text t]
  | none => []

/-- document order: insertion into a list sorted by index (the BTreeMap of `process_events`) -/
def sortOuts (outs : List (Nat × List Ev)) : List (Nat × List Ev) :=
  outs.foldl
    (fun (acc : List (Nat × List Ev)) (o : Nat × List Ev) =>
      let (lo, hi) := acc.partition (fun p => p.1 ≤ o.1)
      lo ++ [o] ++ hi)
    []

/-- pop the scope pushed for a group / reuse body, whatever the body's outcome -/
def popAfter {α : Type} (x : St ρ × Except CErr α) : St ρ × Except CErr α := (x.1.popElement, x.2)

/-- tail of `GroupElement`: register the group with its content box; a symbol contributes no box -/
def groupFinish (ev : Evalr ρ) (st : St ρ) (e : Elem) (r : List Ev × Option BoundingBox) : St ρ × Res :=
  let e' := { e with contentBBox := r.2 }
  -- a group without a bounding box is not a target for `^`
  let st := if r.2.isSome then setPrev (updateElement ev st e') e' else updateElement ev st e'
  if e.name == cs!"symbol" then (st, .ok (r.1, none))
  else
    match e'.bbox with
    | .ok bb => (st, .ok (r.1, bb))
    | .error er => (st, .error (.geom er))

/-- tail of `SvgElement::generate_events`: an element with `clip-path="url(#id)"` contributes only the
    part of its box inside the referenced `<clipPath>` (and is re-registered with that box) -/
def clipPost (ev : Evalr ρ) (e : Elem) (x : St ρ × Res) : St ρ × Res :=
  match x.2 with
  | .ok (evs, some bb) =>
    match (e.getAttr cs!"clip-path").bind Ctx.extractUrlref with
    | some r =>
      match x.1.geo.get r with
      | none => (x.1, .error (.geom .reference))
      | some ce =>
        if ce.name == cs!"clipPath" then
          match x.1.geo.bb ce with
          | .error er => (x.1, .error (.geom er))
          | .ok (some cb) =>
            let nb := bb.intersect cb
            (updateElement ev x.1 { e with contentBBox := nb }, .ok (evs, nb))
          | .ok none => x
        else x
    | none => x
  | _ => x

/-- the element `Tag::generate_events` hands on: `Tag::Leaf` has the defaults applied, `Tag::Compound` not -/
def leafDefaults (st : St ρ) (e : Elem) (kids : Option Nodes) : Elem :=
  match kids with
  | none => applyDefaults st e
  | some _ => e

def registerEarly (ev : Evalr ρ) (st : St ρ) (n : Node) : St ρ :=
  match n with
  | .elem e kids _ => registerOriginal ev st e kids
  | _ => st

/-- the attribute part of `ReuseElement::generate_events`: the reuse element's attributes override the
    defaults of the copy (except href / id / x / y; a transform is appended), the copy takes the reuse
    element's id, style and classes, the template's id becomes a class, a symbol becomes a group -/
def reuseOverride (re inst : Elem) : Elem :=
  re.attrs.foldl (fun (acc : Elem) (kv : Str × Str) =>
      if kv.1 == cs!"href" || kv.1 == cs!"id" || kv.1 == ['x'] || kv.1 == ['y'] then acc
      else if kv.1 == cs!"transform" then
        acc.setAttr cs!"transform" (match acc.getAttr cs!"transform" with
          | some t => t ++ [' '] ++ kv.2
          | none => kv.2)
      else if acc.hasAttr kv.1 then acc.setAttr kv.1 kv.2 else acc) inst

/-- the copy loses the template's id (it becomes a class) and takes the reuse element's id, style, classes -/
def reuseDress (re inst : Elem) : Elem :=
  let (inst, refId) := inst.popAttr cs!"id"
  let inst := match re.getAttr cs!"id" with
    | some i => inst.setAttr cs!"id" i
    | none => inst
  let inst := match re.getAttr cs!"style" with
    | some s => inst.setAttr cs!"style" s
    | none => inst
  let inst := re.classes.foldl (fun (a : Elem) c => a.addClass c) inst
  match refId with
  | some r => inst.addClass r
  | none => inst

def reuseInstance (re inst : Elem) : Elem :=
  let inst := reuseDress re (reuseOverride re inst)
  if inst.name == cs!"symbol" then (Elem.new ['g'] []).withAttrsFrom inst else inst

/-- `ReuseElement::generate_events` between pushing the reuse element and generating the instance:
    look up the original, evaluate the copy in the scope of the reuse element, place it -/
def reusePrepare (ev : Evalr ρ) (st : St ρ) (re : Elem) : St ρ × Except CErr (Elem × Option Nodes) :=
  match re.getAttr cs!"href" with
  | none => (st, .error (.geom .missingAttr))
  | some h =>
    match parseElref h with
    | .error er => (st, .error (.geom er))
    | .ok .prev => ({ st with outside := true }, .error .unsupported)
    | .ok (.id i) =>
      match Attrs.lookupTable st.originals i with
      | none => (st, .error (.geom .reference))
      | some (orig, kids) =>
        seq (withRng st (evalAttributes ev st orig.expandCompoundSize)) fun st inst1 =>
          match inst1.size st.geo with
          | .error er => (st, .error (.geom er))
          | .ok sz =>
            let inst2 := reuseInstance re inst1
            match re.resolvePosition st.geo with
            | .error er => (st, .error (.geom er))
            | .ok re2 =>
              -- registered only once its own position is resolved
              let st := if (re2.getAttr cs!"id").isSome then updateElement ev st re2 else st
              let pos : Position := re2.toPosition
              let cbb : Option BoundingBox := (st.geo.get (.id i)).bind (·.contentBBox)
              let pos : Position := match cbb, sz with
                | some bb, _ => { pos with width := some bb.width, height := some bb.height }
                | none, some wh => { pos with width := some wh.1, height := some wh.2 }
                | none, none => pos
              -- a line is moved as a whole: the offset that brings the top-left of its box to (x, y)
              let (pos, inst2) : Position × Elem :=
                if inst2.name == cs!"line" then
                  let inst3 := inst2.expandCompoundPos
                  match inst3.bbox with
                  | .ok (some bb) =>
                    let pos := match pos.xmin with
                      | some x => { pos with dx := some (pos.dx.getD 0 + x - bb.x1) }
                      | none => pos
                    let pos := match pos.ymin with
                      | some y => { pos with dy := some (pos.dy.getD 0 + y - bb.y1) }
                      | none => pos
                    ({ pos with width := some bb.width, height := some bb.height }, inst3)
                  | _ => (pos, inst3)
                else (pos, inst2)
              (st, .ok (Elem.setPositionAttrs { pos with shape := inst2.name } inst2, kids))

mutual

/-- `SvgElement::generate_events`: depth accounting around the dispatch on the element name -/
def genElem (ev : Evalr ρ) : Nat → St ρ → Elem → Option Nodes → St ρ × Res
  | 0, st, _, _ => (st, .error .fuel)
  | fuel + 1, st, e, kids =>
    if st.depth + 1 > st.cfg.depthLimit then (st, .error (.depthLimit (st.depth + 1) st.cfg.depthLimit))
    else
      let r := dispatch ev fuel { st with depth := st.depth + 1 } e kids
      clipPost ev e ({ r.1 with depth := r.1.depth - 1 }, r.2)

def dispatch (ev : Evalr ρ) : Nat → St ρ → Elem → Option Nodes → St ρ × Res
  | 0, st, _, _ => (st, .error .fuel)
  | fuel + 1, st, e, kids =>
    let n := e.name
    if n == cs!"loop" then genLoop ev fuel st e kids
    else if n == cs!"config" then
      match applyConfig st.cfg e with
      | .ok c => ({ st with cfg := c, gen := st.gen + 1 }, .ok ([], none))
      | .error er => (st, .error er)
    else if n == cs!"reuse" then genReuse ev fuel st e
    else if n == cs!"specs" then genSpecs ev fuel st kids
    else if n == cs!"var" then genVar ev st e
    else if n == cs!"if" then genIf ev fuel st e kids
    else if n == cs!"defaults" then genDefaults st kids
    else if n == cs!"for" then genFor ev fuel st e kids
    else if n == ['g'] || n == cs!"symbol" then genGroup ev fuel st e kids
    else
      match kids with
      | some ks => genContainer ev fuel st e ks
      | none => genOther ev st e

/-- `ReuseElement`: the reuse element's attributes are a scope around a fresh copy of the original -/
def genReuse (ev : Evalr ρ) : Nat → St ρ → Elem → St ρ × Res
  | 0, st, _ => (st, .error .fuel)
  | fuel + 1, st, e =>
    seq (withRng st (evalAttributes ev st e)) fun st re =>
      popAfter
        (seq (reusePrepare ev (st.pushElement re) re) fun st1 ik =>
          match ik.2 with
          | some ks => processNodes ev fuel st1 (Nodes.cons (.elem ik.1 (some ks) none) .nil)
          | none => genElem ev fuel st1 ik.1 none)

/-- `SpecsElement`: content is processed for its registrations only -/
def genSpecs (ev : Evalr ρ) : Nat → St ρ → Option Nodes → St ρ × Res
  | 0, st, _ => (st, .error .fuel)
  | fuel + 1, st, kids =>
    if st.inSpecs then (st, .error .document)
    else
      match kids with
      | some ks =>
        let r := processNodes ev fuel { st with inSpecs := true } ks
        ({ r.1 with inSpecs := false },
          match r.2 with
          | .ok _ => .ok ([], none)
          | .error er => .error er)
      | none => (st, .ok ([], none))

/-- `IfElement` -/
def genIf (ev : Evalr ρ) : Nat → St ρ → Elem → Option Nodes → St ρ × Res
  | 0, st, _, _ => (st, .error .fuel)
  | fuel + 1, st, e, kids =>
    match e.getAttr cs!"test" with
    | none => (st, .error (.geom .missingAttr))
    | some test =>
      match kids with
      | some ks =>
        seq (withRng st (ev.evalCondition st.geo st.env st.rng test)) fun st b =>
          if b then processNodes ev fuel st ks else (st, .ok ([], none))
      | none => (st, .ok ([], none))

/-- `Container` -/
def genContainer (ev : Evalr ρ) : Nat → St ρ → Elem → Nodes → St ρ × Res
  | 0, st, _, _ => (st, .error .fuel)
  | fuel + 1, st, e, ks =>
    match isGraphics e.name, innerText ks.toList with
    | true, some t =>
      -- character-only content of a graphics element is shorthand for the text attribute: the same
      -- element is re-dispatched at the same nesting level (dec_depth … inc_depth)
      if st.depth == 0 then (st, .error .document)
      else
        let r := genElem ev fuel { st with depth := st.depth - 1 } (e.setAttr cs!"text" t) none
        ({ r.1 with depth := r.1.depth + 1 }, r.2)
    | _, inner =>
      if e.name == cs!"svg" && e.hasAttr cs!"xmlns" then
        (st, .ok (rawNode (.elem e (some ks) none), none))
      else
        seq (withRng st (evalAttributes ev st e)) fun st ne =>
          seq (if inner.isSome then (st, .ok (rawNodes ks, none)) else processNodes ev fuel st ks) fun st r =>
            let bb := if e.name == cs!"defs" || e.name == cs!"symbol" then none else r.2
            (finishContainer ev st ne bb,
              .ok ([Ev.start (adapt ne)] ++ r.1 ++ [Ev.end_ e.name], if notRenderedInPlace e.name then none else bb))

/-- `GroupElement` (`g`, `symbol`): a new variable scope around the content -/
def genGroup (ev : Evalr ρ) : Nat → St ρ → Elem → Option Nodes → St ρ × Res
  | 0, st, _, _ => (st, .error .fuel)
  | fuel + 1, st, e, kids =>
    seq (withRng st (evalAttributes ev st e)) fun st ne =>
      seq (popAfter
        (match kids with
         | none => (st.pushElement e, .ok ([Ev.empty (adapt ne)], none))
         | some ks =>
           seq (processNodes ev fuel (st.pushElement e) ks) fun st r =>
             (st, .ok ([Ev.start (adapt ne)] ++ r.1 ++ [Ev.end_ ne.name], r.2))))
        fun st r => groupFinish ev st e r

/-- `LoopElement` -/
def genLoop (ev : Evalr ρ) : Nat → St ρ → Elem → Option Nodes → St ρ × Res
  | 0, st, _, _ => (st, .error .fuel)
  | fuel + 1, st, e, kids =>
    let hasType := (e.getAttr cs!"count").isSome || (e.getAttr cs!"while").isSome || (e.getAttr cs!"until").isSome
    match hasType, kids with
    | true, some ks =>
      match loopHead ev st e with
      | .error er => (st, .error er)
      | .ok (cnt, name, start, step, rng) =>
        loopIter ev fuel { st with rng := rng } ks cnt (if cnt.isSome then none else e.getAttr cs!"while")
          (if cnt.isSome then none else (if (e.getAttr cs!"while").isSome then none else e.getAttr cs!"until"))
          name start step 0 [] none
    | _, _ => (st, .ok ([], none))

/-- the `loop { … }` of `LoopElement`: one call per iteration -/
def loopIter (ev : Evalr ρ) : Nat → St ρ → Nodes → Option Nat → Option Str → Option Str →
    Str → Rat → Rat → Nat → List Ev → Option BoundingBox → St ρ × Res
  | 0, st, _, _, _, _, _, _, _, _, _, _ => (st, .error .fuel)
  | fuel + 1, st, ks, cnt, whileE, untilE, name, value, step, iteration, acc, bb =>
    seq (preTest ev st cnt whileE iteration) fun st go =>
      if !go then (st, .ok (acc, bb))
      else
        seq (processNodes ev fuel (bindLoopVar st name value) ks) fun st r =>
          -- the pass just made is counted, and the limit checked, before the `until` test
          if iteration + 1 > st.cfg.loopLimit then (st, .error (.loopLimit (iteration + 1) st.cfg.loopLimit))
          else
            seq (postTest ev st untilE) fun st stop =>
              if stop then (st, .ok (acc ++ r.1, unionOpt bb r.2))
              else loopIter ev fuel st ks cnt whileE untilE name (value + step) step (iteration + 1) (acc ++ r.1)
                (unionOpt bb r.2)

/-- `ForElement` -/
def genFor (ev : Evalr ρ) : Nat → St ρ → Elem → Option Nodes → St ρ × Res
  | 0, st, _, _ => (st, .error .fuel)
  | fuel + 1, st, e, kids =>
    match e.getAttr cs!"var", e.getAttr cs!"data", kids with
    | some v, some d, some ks =>
      seq (withRng st (ev.evalList st.geo st.env st.rng d)) fun st items =>
        forIter ev fuel st ks v (e.getAttr cs!"idx-var") items 0 [] none
    | _, _, _ => (st, .error (.geom .invalidData))

def forIter (ev : Evalr ρ) : Nat → St ρ → Nodes → Str → Option Str → List Str → Nat → List Ev →
    Option BoundingBox → St ρ × Res
  | 0, st, _, _, _, _, _, _, _ => (st, .error .fuel)
  | _ + 1, st, _, _, _, [], _, acc, bb => (st, .ok (acc, bb))
  | fuel + 1, st, ks, v, iv, item :: items, idx, acc, bb =>
    seq (processNodes ev fuel (bindForVars st v iv item idx) ks) fun st r =>
      if idx + 1 > st.cfg.loopLimit then (st, .error (.loopLimit (idx + 1) st.cfg.loopLimit))
      else forIter ev fuel st ks v iv items (idx + 1) (acc ++ r.1) (unionOpt bb r.2)

/-- `Tag::generate_events` -/
def genNode (ev : Evalr ρ) : Nat → St ρ → Node → St ρ × Res
  | 0, st, _ => (st, .error .fuel)
  | fuel + 1, st, .elem e kids tail =>
    -- `Tag::Leaf`: the defaults in force are applied to an empty-element tag, and only to that
    seq (genElem ev fuel st (leafDefaults st e kids) kids) fun st r => (st, .ok (withTail tail r.1, r.2))
  | _ + 1, st, .comment c tail => (st, .ok ([Ev.comment c] ++ tailEvs tail, none))
  | _ + 1, st, .text t => (st, .ok ([Ev.text t], none))
  | _ + 1, st, .cdata c => (st, .ok ([Ev.cdata c], none))

/-- one pass of `process_tags` over the pending tags: (outputs by index, bbox, still pending) -/
def onePass (ev : Evalr ρ) : Nat → St ρ → List Tag → List (Nat × List Ev) → Option BoundingBox →
    List Tag → St ρ × Except CErr (List (Nat × List Ev) × Option BoundingBox × List Tag)
  | 0, st, _, _, _, _ => (st, .error .fuel)
  | _ + 1, st, [], outs, bb, remain => (st, .ok (outs, bb, remain.reverse))
  | fuel + 1, st, t :: ts, outs, bb, remain =>
    -- early registration so reuse targets are available even if the element is not ready
    let r := genNode ev fuel (registerEarly ev st t.node) t.node
    match r.2 with
    | .error er =>
      -- limits are safety stops, not missing context - also inside a specs block, where every other
      -- error is expected and ignored
      if er.isLimit || er == .fuel then (r.1, .error er)
      else if r.1.inSpecs then onePass ev fuel r.1 ts outs bb remain
      else onePass ev fuel r.1 ts outs bb ({ t with failGen := some r.1.gen } :: remain)
    | .ok (evs, b) =>
      if r.1.inSpecs then onePass ev fuel r.1 ts outs bb remain
      else onePass ev fuel r.1 ts (if evs.isEmpty then outs else outs ++ [(t.idx, evs)]) (unionOpt bb b) remain

/-- the retry loop of `process_tags` -/
def retry (ev : Evalr ρ) : Nat → St ρ → List Tag → List (Nat × List Ev) → Option BoundingBox →
    St ρ × Except CErr (List (Nat × List Ev) × Option BoundingBox)
  | 0, st, _, _, _ => (st, .error .fuel)
  | _ + 1, st, [], outs, bb => (st, .ok (outs, bb))
  | fuel + 1, st, t :: ts, outs, bb =>
    seq (onePass ev fuel st (t :: ts) outs bb []) fun st' r =>
      -- nothing that a remaining tag could refer to has changed since the first of them failed (what
      -- completed earlier in the pass they have all seen): another pass would repeat the same work
      if (r.2.2.head?.bind (·.failGen)) == some st'.gen then (st', .error (.multi (r.2.2.map (·.idx))))
      else if r.2.2.length == (t :: ts).length then
        -- no tag completed: elements newly resolved inside a failing container still count as
        -- progress, a bounded number of times (`allow_idle_pass`)
        if st'.geo.elems.length == st.geo.elems.length then (st', .error (.multi (r.2.2.map (·.idx))))
        else if st'.idlePasses + 1 > st'.cfg.loopLimit then
          ({ st' with idlePasses := st'.idlePasses + 1 }, .error (.multi (r.2.2.map (·.idx))))
        else retry ev fuel { st' with idlePasses := st'.idlePasses + 1 } r.2.2 r.1 r.2.1
      else retry ev fuel st' r.2.2 r.1 r.2.1

/-- `process_events` -/
def processNodes (ev : Evalr ρ) : Nat → St ρ → Nodes → St ρ × Res
  | 0, st, _ => (st, .error .fuel)
  | fuel + 1, st, ks =>
    seq (retry ev fuel st (ks.toList.zipIdx.map fun (n, i) => ({ idx := i, node := n } : Tag)) [] none) fun st r =>
      (st, .ok ((sortOuts r.1).flatMap (·.2), r.2))

end

/-- `Transformer::transform` up to post-processing. The first component is `context.real_svg`: it is
    decided once, from the document itself, and a real SVG document is not processed at all; a
    namespaced `<svg>` met further in is passed through as an element by `genContainer` and has no
    say in how its siblings or the root are treated -/
def transformDoc (ev : Evalr ρ) (fuel : Nat) (st : St ρ) (ks : Nodes) : Bool × St ρ × Res :=
  if isRealSvg ks.toList then (true, st, .ok (rawNodes ks, none))
  else (false, processNodes ev fuel st ks)

end Ctl
end Svgdx
