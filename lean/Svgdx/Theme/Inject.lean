/-
  Svgdx.Theme.Inject — model of `Transformer::write_auto_styles` and `indent_all` (transform.rs): what is
  written after the root start tag from the two lists `ThemeBuilder` returns (`Theme.build`).

    * `<style>`: text events, the start tag, (debug: a comment), ONE CData event holding
      "\n" + the rules (each line indented by 6) joined by "\n" + "\n" + 4 blanks, the end tag; the event list
      goes through the ordinary writer (`Xml.write`), which splits a CDATA event at every `]]>`;
    * `<defs>`: the definitions (each line indented by 4, joined by "\n") are PARSED (`InputList::from_str`)
      and the events re-emitted between `<defs>` and `</defs>`.  `defsBlock` takes the text of the definitions
      verbatim: the reader / raw writer pair is the pass-through of C03 / C05 (it normalises blanks inside
      tags, e.g. drops the blank before `>` in `… patternUnits="userSpaceOnUse" >`); a definition text the
      reader rejects makes the transform fail, which C02 does not speak about.

  Core only.
-/
import Svgdx.Theme.Build
import Svgdx.Xml.Write
namespace Svgdx.Theme
open Svgdx Str Xml

/-- the `strip_suffix('\r')` of `str::lines` -/
def stripCr (l : Str) : Str := if l.getLast? == some '\r' then l.dropLast else l

/-- Rust `str::lines` on the pieces of `split('\n')`: every piece that was terminated by `\n` loses one trailing
    `\r`; the last piece is kept as it is, and dropped when empty -/
def rustLinesOf : List Str → List Str
  | [] => []
  | [last] => if last.isEmpty then [] else [last]
  | l :: rest => stripCr l :: rustLinesOf rest

def rustLines (s : Str) : List Str := rustLinesOf (splitBy (· == '\n') s)

/-- one entry of `indent_all` -/
def indentEntry (n : Nat) (entry : Str) : Str :=
  intercalate ['\n'] ((rustLines entry).map (List.replicate n ' ' ++ ·))

/-- `indent_all(s, indent)` -/
def indentAll (entries : List Str) (n : Nat) : List Str := entries.map (indentEntry n)

/-- the closure `indent_line` -/
def indentLine (n : Nat) : Str := '\n' :: List.replicate n ' '

/-- the text of the CData event (`indent` = 2) -/
def styleCData (styles : List Str) : Str :=
  '\n' :: (intercalate ['\n'] (indentAll styles 6) ++ '\n' :: List.replicate 4 ' ')

def styleElem : Elem := { name := cs!"style", attrs := [] }
def defsElem : Elem := { name := cs!"defs", attrs := [] }

def styleEvents (debug : Bool) (styles : List Str) : List Ctl.Ev :=
  [.text (indentLine 2), .start styleElem] ++
  (if debug then [.text (indentLine 4), .comment cs!" svgdx-generated auto-style CSS "] else []) ++
  [.text (indentLine 4), .cdata (styleCData styles), .text (indentLine 2), .end_ cs!"style"]

def defsHead (debug : Bool) : List Ctl.Ev :=
  [.text (indentLine 2), .start defsElem] ++
  (if debug then [.text (indentLine 4), .comment cs!" svgdx-generated auto-style defs "] else []) ++
  [.text cs!"\n"]

def defsTail : List Ctl.Ev := [.text (indentLine 2), .end_ cs!"defs"]

/-- the text handed to `InputList::from_str` -/
def defsText (defs : List Str) : Str := intercalate ['\n'] (indentAll defs 4)

def defsBlock (debug : Bool) (defs : List Str) : Str :=
  write (defsHead debug) ++ defsText defs ++ write defsTail

/-- everything `write_auto_styles` writes -/
def autoStyleText (debug : Bool) (defs styles : List Str) : Str :=
  (if defs.isEmpty then [] else defsBlock debug defs) ++
  (if styles.isEmpty then [] else write (styleEvents debug styles))

/-- … for a configuration, the classes and the element names of the document -/
def autoStyles (debug : Bool) (cfg : ThemeCfg) (classes elements : List Str) : Str :=
  autoStyleText debug (build cfg classes elements).1 (build cfg classes elements).2

end Svgdx.Theme
