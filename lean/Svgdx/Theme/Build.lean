/-
  Svgdx.Theme.Build — model of `themes.rs`: `Theme::build`, every `append_*` function,
  `pattern_defs`, the two shadow builders and the six themes.

  Everything that is DATA in the Rust source is read from the GENERATED `Svgdx.Gen.Tables`
  (colour lists, the (class, rule) / (class, value) arrays, every `format!` template, the
  per-theme constants, the pattern table, the numeric literals of the pattern functions), so a
  change to a rule in themes.rs changes these definitions on the next run.  What is hand-written
  is the control skeleton (which guard protects which emission, in which order); the order of the
  `append_*` calls is re-checked against the generated `Gen.Theme.build_order` in Props/C20.

  Every emitted style rule is carried together with the class whose presence made the builder
  emit it (`none` for unconditional rules and for auxiliary rules such as `marker path {…}`):
  `stylesT : List (Option Str × Str)`.  `build` forgets the tags.

  The class set and the element set are LISTS here (the code has `HashSet`s).  The only place where
  the code iterates the class set is `append_pattern_styles`; `build` processes the matching
  classes in sorted order (what the code does since the hash-order repair), `buildUnsorted` in the
  order of the given list (what the code did before: the order of the hash set's iterator).

  Numbers: `font_size`, stroke widths and their products are exact `Rat`; `fstr` is `Num.fstr`.
  `sqrt(spacing)` is irrational in general: `sqrtMilli` is the correctly rounded 3-decimal value of
  `sqrt(spacing)/div`, computed with an integer square root, which is what `fstr` of the f32 value
  prints for every spacing 0..100 (checked exhaustively by the harness, DESIGN §3.2).

  Core only (no Mathlib / Std): the driver links this file.
-/
import Svgdx.Base.Num
import Svgdx.Gen.Tables
namespace Svgdx.Theme
open Svgdx Str

/-! ### `format!` -/

inductive FmtSt where
  | lit                 -- copying literal text
  | afterOpen           -- saw `{`
  | inName (nm : Str)   -- inside `{name` (reversed)
  | afterClose          -- saw `}` in literal text (first half of `}}`)

/-- argument selected by the text between `{` and `}`: empty = next positional, digits = that
    positional, otherwise a named (captured) argument -/
def fmtArg (named : List (Str × Str)) (pos : List Str) (next : Nat) (nm : Str) : Str × Nat :=
  if nm.isEmpty then (pos.getD next [], next + 1)
  else if nm.all isDigit then (pos.getD (Num.digitsToNat nm) [], next)
  else ((named.lookup nm).getD [], next)

def fmtGo (named : List (Str × Str)) (pos : List Str) : Str → FmtSt → Nat → Str
  | [], _, _ => []
  | c :: r, .lit, n =>
    if c == '{' then fmtGo named pos r .afterOpen n
    else if c == '}' then fmtGo named pos r .afterClose n
    else c :: fmtGo named pos r .lit n
  | c :: r, .afterOpen, n =>
    if c == '{' then '{' :: fmtGo named pos r .lit n
    else if c == '}' then (fmtArg named pos n []).1 ++ fmtGo named pos r .lit (fmtArg named pos n []).2
    else fmtGo named pos r (.inName [c]) n
  | c :: r, .inName nm, n =>
    if c == '}' then (fmtArg named pos n nm.reverse).1 ++ fmtGo named pos r .lit (fmtArg named pos n nm.reverse).2
    else fmtGo named pos r (.inName (c :: nm)) n
  | _ :: r, .afterClose, n => '}' :: fmtGo named pos r .lit n

/-- Rust `format!(tpl, pos…, named…)` for the template features themes.rs uses:
    `{}`, `{0}`, `{name}`, `{{`, `}}`. -/
def fmt (tpl : Str) (named : List (Str × Str)) (pos : List Str) : Str := fmtGo named pos tpl .lit 0

def nth (l : List Str) (i : Nat) : Str := l.getD i []

/-! ### themes -/

inductive ThemeKind where
  | dflt | bold | fine | glass | light | dark
deriving DecidableEq, Repr

def ThemeKind.all : List ThemeKind := [.dflt, .bold, .fine, .glass, .light, .dark]

/-- the `ThemeType` variant -/
def ThemeKind.variant : ThemeKind → Str
  | .dflt => cs!"Default" | .bold => cs!"Bold" | .fine => cs!"Fine"
  | .glass => cs!"Glass" | .light => cs!"Light" | .dark => cs!"Dark"

/-- `ThemeType::from_str` through the generated name table -/
def ThemeKind.ofName (s : Str) : Option ThemeKind :=
  match Gen.ThemeType.names.lookup s with
  | some v => ThemeKind.all.find? (fun k => k.variant == v)
  | none => none

/-- the struct implementing `Theme` that `ThemeBuilder::build` dispatches to -/
def ThemeKind.structName (k : ThemeKind) : Str := k.variant ++ cs!"Theme"

def ovr (who key : Str) : Option Str :=
  (Gen.Theme.overrides.find? (fun e => e.1 == who && e.2.1 == key)).map (·.2.2)

/-- a `default_*` method: the theme's override, else the trait default -/
def themeVal (k : ThemeKind) (key : Str) : Str :=
  match ovr k.structName key with
  | some v => v
  | none => (ovr cs!"*" key).getD []

/-- the strings an `append_early_styles` / `append_late_styles` override adds -/
def themeStyles (k : ThemeKind) (key : Str) : List Str :=
  (Gen.Theme.overrides.filter (fun e => e.1 == k.structName && e.2.1 == key)).map (·.2.2)

def themeFill (k : ThemeKind) : Str := themeVal k cs!"default_fill"
def themeStroke (k : ThemeKind) : Str := themeVal k cs!"default_stroke"
def themeBackground (k : ThemeKind) : Str := themeVal k cs!"default_background"
def themeStrokeWidth (k : ThemeKind) : Rat := (Num.strp (themeVal k cs!"default_stroke_width")).getD 0

structure ThemeCfg where
  theme : ThemeKind
  background : Str
  fontSize : Rat
  fontFamily : Str
  localId : Option Str

/-- Rust `Display` of an f32 holding exactly `x` (grid values only, DESIGN §3.2) -/
def display (x : Rat) : Str := (Num.displayExact x).getD (Num.fstr x)

abbrev Tagged := Option Str × Str

def has (cs : List Str) (k : Str) : Bool := cs.contains k

/-- a rule emitted under `if tb.has_class(k)` (`macro_inline`: the rules are only computed when needed) -/
@[macro_inline] def guarded (cs : List Str) (k : Str) (rules : List Str) : List Tagged :=
  if has cs k then rules.map (fun r => (some k, r)) else []

def untagged (rules : List Str) : List Tagged := rules.map (fun r => (none, r))

/-! ### `Theme::build`, head -/

def bs : List Str := Gen.Theme.build_strings

def outerSvg (cfg : ThemeCfg) : Str :=
  match cfg.localId with
  | some id => fmt (nth bs 1) [] [id]
  | none => nth bs 0

def backgroundRule (cfg : ThemeCfg) : Str :=
  if cfg.background != nth bs 2 then fmt (nth bs 3) [] [outerSvg cfg, cfg.background]
  else fmt (nth bs 4) [] [outerSvg cfg, themeBackground cfg.theme]

def localOpen (cfg : ThemeCfg) : List Str :=
  match cfg.localId with
  | some id => [fmt (nth bs 5) [] [id]]
  | none => []

def localClose (cfg : ThemeCfg) : List Str :=
  match cfg.localId with
  | some _ => [nth bs 11]
  | none => []

def earlyStyles (cfg : ThemeCfg) : List Str := themeStyles cfg.theme cs!"append_early_styles"
def lateStyles (cfg : ThemeCfg) : List Str := themeStyles cfg.theme cs!"append_late_styles"

def surroundStyles (cs : List Str) : List Tagged := guarded cs (nth bs 6) [nth bs 7]

/-! ### `append_common_styles` -/

def cms : List Str := Gen.Theme.append_common_styles_strings

def commonStyles (cfg : ThemeCfg) : List Str :=
  let allElements := match cfg.localId with | some _ => nth cms 0 | none => nth cms 1
  let named : List (Str × Str) :=
    [ (cs!"all_elements", allElements), (cs!"stroke_width", display (themeStrokeWidth cfg.theme)),
      (cs!"fill", themeFill cfg.theme), (cs!"stroke", themeStroke cfg.theme),
      (cs!"font_family", cfg.fontFamily), (cs!"font_size", display cfg.fontSize) ]
  (cms.drop 2).map (fun tpl => fmt tpl named [])

/-! ### `append_colour_styles` -/

def cls : List Str := Gen.Theme.append_colour_styles_strings

def isDark (c : Str) : Bool := Gen.DARK_COLOURS.contains c

def fillClass (c : Str) : Str := fmt (nth cls 0) [(cs!"colour", c)] []
def fillRule (c : Str) : Str := fmt (nth cls 1) [(cs!"colour", c)] []
def fillTextRule (c : Str) : Str :=
  let tf := if isDark c then nth cls 2 else nth cls 4
  let ts := if isDark c then nth cls 3 else nth cls 5
  fmt (nth cls 6) [(cs!"colour", c), (cs!"text_fill", tf), (cs!"text_stroke", ts)] []

def strokeClass (c : Str) : Str := fmt (nth cls 7) [(cs!"colour", c)] []
def strokeRule (c : Str) : Str := fmt (nth cls 8) [(cs!"colour", c)] []
def strokeTextRule (c : Str) : Str :=
  let ts := if isDark c then nth cls 10 else nth cls 11
  fmt (nth cls 12) [(cs!"colour", c), (cs!"text_stroke", ts)] []

def textColClass (c : Str) : Str := fmt (nth cls 13) [(cs!"colour", c)] []
def textColRule (c : Str) : Str :=
  let ts := if isDark c then nth cls 14 else nth cls 15
  fmt (nth cls 16) [(cs!"colour", c), (cs!"text_stroke", ts)] []

def textOlColClass (c : Str) : Str := fmt (nth cls 17) [(cs!"colour", c)] []
def textOlColRule (c : Str) : Str := fmt (nth cls 18) [(cs!"colour", c)] []

def fillStyles (cs : List Str) : List Tagged :=
  Gen.COLOUR_LIST.flatMap fun c => guarded cs (fillClass c) [fillRule c, fillTextRule c]
def strokeStyles (cs : List Str) : List Tagged :=
  Gen.COLOUR_LIST.flatMap fun c =>
    guarded cs (strokeClass c) (strokeRule c :: (if c != nth cls 9 then [strokeTextRule c] else []))
def textColStyles (cs : List Str) : List Tagged :=
  Gen.COLOUR_LIST.flatMap fun c => guarded cs (textColClass c) [textColRule c]
def textOlColStyles (cs : List Str) : List Tagged :=
  Gen.COLOUR_LIST.flatMap fun c => guarded cs (textOlColClass c) [textOlColRule c]

def colourStyles (cs : List Str) : List Tagged :=
  fillStyles cs ++ strokeStyles cs ++ textColStyles cs ++ textOlColStyles cs

/-! ### `append_stroke_width_styles`, `append_text_styles` -/

/-- numeric factor of a table cell rendered as Rust tokens: `base * 0.25`, `tb . font_size * 2.`,
    `tb . font_size` (factor 1) or a bare literal -/
def factorOf (e : Str) : Rat :=
  match splitOnSub cs!" * " e with
  | some (_, lit) => (Num.strp lit).getD 0
  | none => (Num.strp e).getD 1

def sws : List Str := Gen.Theme.append_stroke_width_styles_strings

def strokeWidthRule (cfg : ThemeCfg) (k e : Str) : Str :=
  fmt (nth sws Gen.Theme.append_stroke_width_styles_table0.length) [(cs!"class", k)]
    [Num.fstr (themeStrokeWidth cfg.theme * factorOf e)]

def strokeWidthStyles (cfg : ThemeCfg) (cs : List Str) : List Tagged :=
  Gen.Theme.append_stroke_width_styles_table0.flatMap fun (k, e) => guarded cs k [strokeWidthRule cfg k e]

def txs : List Str := Gen.Theme.append_text_styles_strings

/-- the two positional templates of `append_text_styles`: font-size, then stroke-width -/
def textTemplates : List Str := txs.filter (fun s => (findSub cs!"{0}" s).isSome)

def textSizeRule (cfg : ThemeCfg) (k e : Str) : Str :=
  fmt (nth textTemplates 0) [] [k, Num.fstr (cfg.fontSize * factorOf e)]

def textOlWidthRule (k e : Str) : Str :=
  fmt (nth textTemplates 1) [] [k, Num.fstr (factorOf e)]

def hasText (es : List Str) : Bool := es.contains (nth txs 0)

def textStyles (cfg : ThemeCfg) (cs es : List Str) : List Tagged :=
  if hasText es then
    (Gen.Theme.append_text_styles_table0.flatMap fun (k, r) => guarded cs k [r]) ++
    (Gen.Theme.append_text_styles_table1.flatMap fun (k, e) => guarded cs k [textSizeRule cfg k e]) ++
    (Gen.Theme.append_text_styles_table2.flatMap fun (k, e) => guarded cs k [textOlWidthRule k e])
  else []

/-! ### `append_arrow_styles`, `append_dash_styles` -/

def ars : List Str := Gen.Theme.append_arrow_styles_strings

def hasArrow (cs : List Str) : Bool := has cs (nth ars 0) || has cs (nth ars 2)

def arrowStyles (cs : List Str) : List Tagged :=
  guarded cs (nth ars 0) [nth ars 1] ++ guarded cs (nth ars 2) [nth ars 3] ++
  (if hasArrow cs then untagged [nth ars 4] else [])

def arrowDefs (cs : List Str) : List Str := if hasArrow cs then [nth ars 5] else []

def dss : List Str := Gen.Theme.append_dash_styles_strings
def flowTable : List (Str × Str) := Gen.Theme.append_dash_styles_table0
/-- index in `dss` of the first literal after the (class, speed) pairs of `flow_style` -/
def dashBase : Nat := 2 * flowTable.length

def flowRule (k speed : Str) : Str := fmt (nth dss dashBase) [(cs!"class", k), (cs!"speed", speed)] []

def hasFlow (cs : List Str) : Bool := flowTable.any (fun e => has cs e.1)

def dashStyles (cs : List Str) : List Tagged :=
  (flowTable.flatMap fun (k, speed) => guarded cs k [flowRule k speed]) ++
  (if hasFlow cs then untagged [nth dss (dashBase + 1)] else []) ++
  guarded cs (nth dss (dashBase + 2)) [nth dss (dashBase + 3)] ++
  guarded cs (nth dss (dashBase + 4)) [nth dss (dashBase + 5)] ++
  guarded cs (nth dss (dashBase + 6)) [nth dss (dashBase + 7)] ++
  guarded cs (nth dss (dashBase + 8)) [nth dss (dashBase + 9)]

/-! ### patterns -/

def us : Char := Char.ofNat 0x1f

structure PatternRow where
  cls : Str
  ty : Str              -- PatternType variant
  rotate : Option Str   -- the i32 as printed

def parseRotate (s : Str) : Option Str :=
  match stripPrefix cs!"Some" s with
  | some r => some (r.filter (fun c => c == '-' || isDigit c))
  | none => none

def parseRow (e : Str × Str) : PatternRow :=
  match splitBy (· == us) e.2 with
  | [t, r] =>
    { cls := e.1, ty := ((splitOnSub cs!":: " t).map (·.2)).getD t, rotate := parseRotate r }
  | _ => { cls := e.1, ty := [], rotate := none }

def patternRows : List PatternRow := Gen.Theme.append_pattern_styles_table0.map parseRow

def pnums : List Str := Gen.Theme.append_pattern_styles_numbers
/-- `filter(|&n| n <= 100)` -/
def spacingLimit : Nat := Num.digitsToNat (nth pnums 3)
/-- spacing of the bare class (`pattern_defs(tb, t_stroke, ptn_class, 1, …)`) -/
def defaultSpacing : Nat := Num.digitsToNat (nth pnums 4)

/-- Rust `str::parse::<u32>`: optional `+`, at least one ASCII digit, value below 2^32 -/
def parseU32 (s : Str) : Option Nat :=
  let ds := match s with
    | '+' :: r => r
    | r => r
  if ds.isEmpty || !ds.all isDigit then none
  else
    let v := Num.digitsToNat ds
    if v < 4294967296 then some v else none

/-- `get_spacing(prefix, c)` -/
def getSpacing (pfx c : Str) : Option Nat :=
  match stripPrefix pfx c with
  | some suffix =>
    match parseU32 suffix with
    | some n => if n ≤ spacingLimit then some n else none
    | none => none
  | none => none

def trimStartGo (p : Str) : Nat → Str → Str
  | 0, s => s
  | fuel + 1, s =>
    match stripPrefix p s with
    | some r => trimStartGo p fuel r
    | none => s

/-- Rust `s.trim_start_matches(p)` for non-empty `p` -/
def trimStartMatches (p s : Str) : Str := if p.isEmpty then s else trimStartGo p s.length s

/-- largest `m ≤ hi` with `m * m ≤ n`, by bisection (`lo * lo ≤ n` is kept) -/
def isqrtGo (n : Nat) : Nat → Nat → Nat → Nat
  | 0, lo, _ => lo
  | fuel + 1, lo, hi =>
    if hi ≤ lo + 1 then (if hi * hi ≤ n then hi else lo)
    else
      let mid := (lo + hi) / 2
      if mid * mid ≤ n then isqrtGo n fuel mid hi else isqrtGo n fuel lo mid

def isqrt (n : Nat) : Nat := isqrtGo n (n.log2 + 2) 0 (n + 1)

/-- `sqrt(n)/div` correctly rounded to a multiple of 1/1000 (`div` divides 1000) -/
def sqrtMilli (n : Nat) (div : Rat) : Rat :=
  let scale : Nat := ((1000 : Rat) / div).floor.toNat
  let big := n * scale * scale
  let m := isqrt big
  let m := if (2 * m + 1) * (2 * m + 1) ≤ 4 * big then m + 1 else m
  (m : Rat) / 1000

def pds : List Str := Gen.Theme.pattern_defs_strings
def pdn : List Str := Gen.Theme.pattern_defs_numbers
def pdNum (i : Nat) : Rat := (Num.strp (nth pdn i)).getD 1

def ptnId (c : Str) : Str := trimStartMatches (nth pds 1) c

def patternRule (c : Str) : Str := fmt (nth pds 2) [(cs!"class", c), (cs!"ptn_id", ptnId c)] []

def patternLines (stroke : Str) (spacing : Nat) (ty : Str) : Str :=
  let named : List (Str × Str) :=
    [ (cs!"spacing", natToStr spacing), (cs!"sw", Num.fstr (sqrtMilli spacing (pdNum 0))),
      (cs!"t_stroke", stroke), (cs!"gs", Num.fstr ((spacing : Rat) / pdNum 1)),
      (cs!"r", Num.fstr (sqrtMilli spacing (pdNum 2))) ]
  Gen.Theme.pattern_defs_branches.flatMap fun b => if b.1.contains ty then fmt b.2 named [] else []

def patternDef (stroke c : Str) (spacing : Nat) (ty : Str) (rot : Option Str) : Str :=
  let rotate := match rot with
    | some r => fmt (nth pds 0) [(cs!"r", r)] []
    | none => []
  fmt (nth pds 6)
    [ (cs!"ptn_id", ptnId c), (cs!"spacing", natToStr spacing), (cs!"rotate", rotate),
      (cs!"lines", patternLines stroke spacing ty) ] []

/-- one `pattern_defs` call: the rule (tagged with its class) and the definition -/
def patternItem (stroke : Str) (row : PatternRow) (c : Str) (spacing : Nat) : Tagged × Str :=
  ((some c, patternRule c), patternDef stroke c spacing row.ty row.rotate)

/-- lexicographic order on code points = Rust's `String` ordering -/
def strLt : Str → Str → Bool
  | [], [] => false
  | [], _ :: _ => true
  | _ :: _, [] => false
  | a :: as, b :: bs => a.toNat < b.toNat || (a.toNat == b.toNat && strLt as bs)

def insertU (x : Str) : List Str → List Str
  | [] => [x]
  | y :: ys => if strLt x y then x :: y :: ys else if x == y then y :: ys else y :: insertU x ys

/-- sorted, duplicates removed: the order in which a sorted `Vec` collected from a set is visited -/
def sortU (l : List Str) : List Str := l.foldr insertU []

def specClass (row : PatternRow) : Str := fmt (nth Gen.Theme.append_pattern_styles_strings 6) [] [row.cls]

def rowItems (order : List Str → List Str) (stroke : Str) (cs : List Str) (row : PatternRow) :
    List (Tagged × Str) :=
  (if has cs row.cls then [patternItem stroke row row.cls defaultSpacing] else []) ++
  (order (cs.filter (startsWith (specClass row)))).filterMap fun c =>
    (getSpacing (specClass row) c).map (patternItem stroke row c)

def patternItems (order : List Str → List Str) (stroke : Str) (cs : List Str) : List (Tagged × Str) :=
  patternRows.flatMap (rowItems order stroke cs)

/-! ### shadows -/

def shadowStrings (fn : Str) : List Str :=
  if fn == cs!"d_softshadow" then Gen.Theme.d_softshadow_strings
  else if fn == cs!"d_hardshadow" then Gen.Theme.d_hardshadow_strings
  else []

def shadowStyles (cs : List Str) : List Tagged :=
  Gen.Theme.build_table.flatMap fun (k, fn) => guarded cs k [nth (shadowStrings fn) 0]

def shadowDefs (cs : List Str) : List Str :=
  Gen.Theme.build_table.flatMap fun (k, fn) => if has cs k then [nth (shadowStrings fn) 1] else []

/-! ### `Theme::build` -/

def stylesT (order : List Str → List Str) (cfg : ThemeCfg) (cs es : List Str) : List Tagged :=
  untagged [backgroundRule cfg] ++ untagged (localOpen cfg) ++ untagged (earlyStyles cfg) ++
  surroundStyles cs ++ untagged (commonStyles cfg) ++ colourStyles cs ++ strokeWidthStyles cfg cs ++
  textStyles cfg cs es ++ arrowStyles cs ++ dashStyles cs ++
  (patternItems order (themeStroke cfg.theme) cs).map (·.1) ++
  shadowStyles cs ++ untagged (lateStyles cfg) ++ untagged (localClose cfg)

def defsOf (order : List Str → List Str) (cfg : ThemeCfg) (cs : List Str) : List Str :=
  arrowDefs cs ++ (patternItems order (themeStroke cfg.theme) cs).map (·.2) ++ shadowDefs cs

def buildWith (order : List Str → List Str) (cfg : ThemeCfg) (cs es : List Str) : List Str × List Str :=
  (defsOf order cfg cs, (stylesT order cfg cs es).map (·.2))

/-- `ThemeBuilder::build` followed by `(get_defs(), get_styles())` -/
def build (cfg : ThemeCfg) (classes elements : List Str) : List Str × List Str :=
  buildWith sortU cfg classes elements

/-- the builder before the hash-order repair: matching pattern classes in the order the set yields them -/
def buildUnsorted (cfg : ThemeCfg) (classes elements : List Str) : List Str × List Str :=
  buildWith id cfg classes elements

/-! ### specification-side vocabulary (used by Props/C20 and documented for the harness oracle) -/

def selStop (c : Char) : Bool := c == ' ' || c == ',' || c == '{'

/-- the reserved class a CSS rule is *for*, read off its text: the selector starts with
    `.K`, `text.K` or `line.K` -/
def keyOf (r : Str) : Option Str :=
  match r with
  | '.' :: rest => some (rest.takeWhile (fun c => !selStop c))
  | 't' :: 'e' :: 'x' :: 't' :: '.' :: rest => some (rest.takeWhile (fun c => !selStop c))
  | 'l' :: 'i' :: 'n' :: 'e' :: '.' :: rest => some (rest.takeWhile (fun c => !selStop c))
  | _ => none

/-- text following each occurrence of `pat`, up to (not including) `stop` -/
def occs (pat : Str) (stop : Char) : Str → List Str
  | [] => []
  | c :: r =>
    match stripPrefix pat (c :: r) with
    | some rest => rest.takeWhile (· != stop) :: occs pat stop r
    | none => occs pat stop r

/-- ids referenced as `url(#id)` -/
def urlRefs (s : Str) : List Str := occs cs!"url(#" ')' s
/-- ids declared as `id="…"` -/
def declIds (s : Str) : List Str := occs cs!"id=\"" '"' s

end Svgdx.Theme
