#!/bin/sh
# Build the framework from files on disk only (offline): translator, generated model, Lean library,
# driver executable and the harness linked against /repo with verif-hooks.
set -e
cd "$(dirname "$0")"
export CARGO_NET_OFFLINE=true CARGO_TARGET_DIR=/verif/.build/target
mkdir -p .build evidence replays
(cd tools/vtranslate && cargo build --offline)
.build/target/debug/vtranslate /repo/src lean/Svgdx/Gen
(cd lean && lake build Svgdx svgdx_model)
(cd tools/vharness && cargo build --offline)
# the svgdx and svgdx-server binaries of /repo's working tree (front-end properties C01 C06 C07)
(cd /repo && CARGO_TARGET_DIR=/verif/.build/target-repo cargo build --offline --bins)
# warm the proof modules (and Mathlib's first load) so that per-property checks are incremental
(cd lean && for f in Svgdx/Props/C*.lean; do m=$(echo "$f" | sed 's/\.lean$//; s|/|.|g'); lake build "$m" >/dev/null 2>&1 || true; done)
echo setup done
